"""Fact extraction and loading.

Runs the rustc_private driver (driver/target/release/bsq-facts) over /repo's
current working tree with `cargo +nightly check --offline`, once per build
configuration, and caches the resulting JSON keyed by a content hash of the
tree.  Nothing from /repo is executed.
"""
import fcntl
import glob
import hashlib
import json
import re
import os
import shutil
import subprocess
import sys
import time
import uuid

VERIF = os.path.dirname(os.path.dirname(os.path.abspath(__file__)))
REPO = os.environ.get("BSQ_REPO", "/repo")
CACHE = os.path.join(VERIF, ".cache")
DRIVER = os.path.join(VERIF, "driver", "target", "release", "bsq-facts")

# build configurations: name -> (cargo feature args, debug assertions)
CONFIGS = {
    "all-dbg": (["--features", "translation,extra_codecs,serde"], True),
    "def-dbg": ([], True),
    "all-rel": (["--features", "translation,extra_codecs,serde"], False),
    "def-rel": ([], False),
}
# quick: both feature sets with debug assertions on, plus the all-features build with debug assertions and overflow
# checks off (code may branch on cfg!(debug_assertions): profile-specific behaviour is part of several quantifiers)
QUICK_CONFIGS = ["all-dbg", "def-dbg", "all-rel"]
THOROUGH_CONFIGS = ["all-dbg", "def-dbg", "all-rel", "def-rel"]


def tree_hash(root=None):
    root = root or REPO
    h = hashlib.sha256()
    for dp, dn, fn in os.walk(root):
        dn[:] = sorted(d for d in dn if d not in (".git", "target"))
        for f in sorted(fn):
            p = os.path.join(dp, f)
            if os.path.islink(p) or not os.path.isfile(p):
                continue
            h.update(os.path.relpath(p, root).encode())
            h.update(b"\0")
            with open(p, "rb") as fh:
                h.update(fh.read())
            h.update(b"\0")
    # the driver itself is part of the key
    try:
        with open(DRIVER, "rb") as fh:
            h.update(hashlib.sha256(fh.read()).digest())
    except OSError:
        pass
    return h.hexdigest()[:20]


def nightly_sysroot():
    return subprocess.check_output(["rustc", "+nightly", "--print", "sysroot"], text=True).strip()


class BuildFailure(Exception):
    def __init__(self, cfg, stderr):
        super().__init__("build of configuration %s failed" % cfg)
        self.cfg = cfg
        self.stderr = stderr


def ensure_driver():
    if not os.path.exists(DRIVER):
        subprocess.check_call([os.path.join(VERIF, "bin", "setup")])


def _run_driver(workdir, cargo_args, target_dir, facts_dir, nonce, debug_assertions=True,
                crates="", members=("bio-seq", "bio_seq", "bio-seq-derive", "bio_seq_derive")):
    env = dict(os.environ)
    env["LD_LIBRARY_PATH"] = nightly_sysroot() + "/lib" + (
        ":" + env["LD_LIBRARY_PATH"] if env.get("LD_LIBRARY_PATH") else "")
    flags = "-Zmir-opt-level=0 -Awarnings"
    if not debug_assertions:
        flags += " -Cdebug-assertions=off -Coverflow-checks=off"
    env["RUSTFLAGS"] = flags
    env["RUSTC_WORKSPACE_WRAPPER"] = DRIVER
    env["BSQ_FACTS_DIR"] = facts_dir
    env["BSQ_NONCE"] = nonce
    env["BSQ_FACTS_CRATES"] = crates
    env["CARGO_TARGET_DIR"] = target_dir
    env["CARGO_NET_OFFLINE"] = "true"
    env["CARGO_INCREMENTAL"] = "0"      # scratch copies would each leave an incremental cache behind
    env.pop("RUSTC_WRAPPER", None)
    # force the wrapper to run for workspace members: drop their fingerprints
    fp = os.path.join(target_dir, "debug", ".fingerprint")
    if os.path.isdir(fp):
        for d in os.listdir(fp):
            if any(d.startswith(m + "-") for m in members):
                shutil.rmtree(os.path.join(fp, d), ignore_errors=True)
    cmd = ["cargo", "+nightly", "check", "--offline"] + cargo_args
    r = subprocess.run(cmd, cwd=workdir, env=env, stdout=subprocess.PIPE, stderr=subprocess.PIPE,
                       text=True)
    return r


def extract(cfg, force=False):
    """Return the directory holding fact files for configuration cfg of the current tree."""
    ensure_driver()
    th = tree_hash()
    out = os.path.join(CACHE, "facts", th, cfg)
    os.makedirs(os.path.join(CACHE, "facts"), exist_ok=True)
    lock = open(os.path.join(CACHE, "facts", ".lock-" + cfg), "w")
    fcntl.flock(lock, fcntl.LOCK_EX)
    try:
        ok = os.path.join(out, "OK")
        fail = os.path.join(out, "FAILED")
        if not force and os.path.exists(ok):
            return out
        if not force and os.path.exists(fail):
            raise BuildFailure(cfg, open(fail).read())
        if os.path.isdir(out):
            shutil.rmtree(out)
        os.makedirs(out)
        feats, dbg = CONFIGS[cfg]
        nonce = uuid.uuid4().hex
        target = os.path.join(CACHE, "target-" + cfg)
        t0 = time.time()
        r = _run_driver(REPO, ["--workspace"] + feats, target, out, nonce, dbg,
                        crates="bio_seq,bio_seq_derive")
        if r.returncode != 0:
            with open(fail, "w") as fh:
                fh.write(r.stderr[-20000:])
            raise BuildFailure(cfg, r.stderr)
        # assert freshness: each expected crate has a file with this nonce
        seen = {}
        for f in glob.glob(os.path.join(out, "*.json")):
            with open(f) as fh:
                head = fh.read(200)
            if nonce not in head:
                raise RuntimeError("stale fact file " + f)
            seen[os.path.basename(f).split(".")[0]] = f
        for need in ("bio_seq", "bio_seq_derive"):
            if need not in seen:
                raise RuntimeError("fact file for %s missing (wrapper skipped?)" % need)
        with open(ok, "w") as fh:
            json.dump({"nonce": nonce, "tree": th, "cfg": cfg, "wall_s": time.time() - t0}, fh)
        _gc(th)
        return out
    finally:
        fcntl.flock(lock, fcntl.LOCK_UN)
        lock.close()


def _gc(keep):
    base = os.path.join(CACHE, "facts")
    ents = [d for d in os.listdir(base) if os.path.isdir(os.path.join(base, d)) and d != keep]
    ents.sort(key=lambda d: os.path.getmtime(os.path.join(base, d)))
    now = time.time()
    for d in ents[:-6]:
        # never drop a tree another process may still be reading (concurrent checks on scratch copies)
        if now - os.path.getmtime(os.path.join(base, d)) > 3600:
            shutil.rmtree(os.path.join(base, d), ignore_errors=True)


class Crate:
    """Indexed view of one fact file."""

    def __init__(self, data):
        self.data = data
        self.name = data["crate"]
        self.bodies = data["bodies"]
        self.by_path = {}
        for b in self.bodies:
            self.by_path.setdefault(b["path"], []).append(b)
        self.by_id = {b["id"]: b for b in self.bodies}
        self.adts = {a["path"]: a for a in data["adts"]}
        self.impls = data["impls"]
        self.evals = {}
        for e in data["evals"]:
            self.evals.setdefault(e["path"], []).append(e)
        self.fns = data["fns"]

    def body(self, path):
        v = self.by_path.get(path)
        if not v:
            return None
        return v[0]

    def bodies_matching(self, pred):
        return [b for b in self.bodies if pred(b)]

    def const_val(self, path):
        for e in self.evals.get(path, []):
            if "val" in e:
                return e["val"]
        return None

    def const_bytes(self, path):
        for e in self.evals.get(path, []):
            if "bytes" in e:
                return e["bytes"]
        return None


class Facts:
    def __init__(self, cfg):
        self.cfg = cfg
        self.dir = extract(cfg)
        self.crates = {}
        import canon
        self.renames = {}
        for f in sorted(glob.glob(os.path.join(self.dir, "*.json"))):
            with open(f) as fh:
                text = fh.read()
            d = json.loads(text)
            if d.get("crate") == "bio_seq" and re.search(r'"aty": ?"(i8|i16|i32|i64|i128|isize)"', text) and any(
                    re.search(r'"aty": ?"(i8|i16|i32|i64|i128|isize)"', json.dumps(b)) for b in d["bodies"]
                    if not (b.get("impl") or {}).get("derived") and not b.get("exp")):
                # the integer normal forms treat every atom as unsigned (nf.cmp_canon, nf.entails): true of the pinned crate, which
                # has no signed arithmetic at all; a tree that introduces some loses the unsigned-only identities
                import nf
                nf.SIGNED_SEEN = True
            # items that moved between modules are given back their frozen names (rules/canon.py)
            fkey = "all" if any("translation" in x for x in d.get("features", [])) else "def"
            ren = canon.compute_renames(d.get("names", []), (canon.frozen().get(d["crate"]) or {}).get(fkey)) if not os.environ.get("BSQ_NO_CANON") else {}
            if ren:
                d = json.loads(canon.rewrite(text, ren))
                self.renames.update({d["crate"] + "::" + k: v for k, v in ren.items()})
            if not os.environ.get("BSQ_NO_CANON"):
                gren = canon.canon_generics(d, ((canon.frozen().get(d["crate"]) or {}).get(fkey) or {}).get("generics"))
                self.renames.update({d["crate"] + "::generics of " + k: v for k, v in gren.items()})
            kind = os.path.basename(f).split(".")[1]
            # the proc-macro crate may be compiled twice (host/target); keep one
            self.crates[d["crate"]] = Crate(d)
        self.bio = self.crates["bio_seq"]
        self.derive = self.crates["bio_seq_derive"]
        self.features = [f.split("=")[1].strip('"') for f in self.bio.data["features"]]
        self.debug_assertions = self.bio.data["debug_assertions"]


_loaded = {}


def load(cfg):
    if cfg not in _loaded:
        _loaded[cfg] = Facts(cfg)
    return _loaded[cfg]


if __name__ == "__main__":
    for c in sys.argv[1:] or QUICK_CONFIGS:
        t = time.time()
        f = load(c)
        print(c, f.dir, "bodies", len(f.bio.bodies), len(f.derive.bodies), "%.1fs" % (time.time() - t))
