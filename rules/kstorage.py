"""Rows about k-mer storage and bit order / endianness shared by C02, C04, C08, C09, C10.

S-kmer-int : KmerStorage::{to_bitarray, from_bitslice} for usize/u64/u128 are the
             little-endian word decomposition and load_le.
I-endian   : every BitField load is load_le; every store is store / store_le.
I-order    : every bit view is Lsb0 (no Msb0 anywhere in the crate's resolved types).
"""
import re

import an
import nf
from an import P, F, c, canon, short
from terms import show, walk, I

LOAD = re.compile(r"BitField>::(load(_le|_be)?)::<(\w+)>$")
STORE = re.compile(r"BitField>::(store(_le|_be)?)::<(\w+)>$")


def storage_rows(chk, cfg):
    bio = cfg.bio
    n = 0
    for st in ("usize", "u64", "u128"):
        imp = r"^%s$" % st
        b = an.one(chk, "S-kmer-int", bio, "%s::to_bitarray" % st, name="to_bitarray", trait="kmer::sealed::KmerStorage", self_re=imp)
        if b:
            paths, _ = an.analyse(cfg, b)
            r = [p for p in paths if p.end == "return"]
            ok = False
            got = show(r[0].ret) if r else "?"
            if len(r) == 1 and not r[0].guards and an.is_call(r[0].ret, re.compile(r"^bitvec::array::BitArray(::<[^>]*>)?::new$")):
                arr = r[0].ret[2][0]
                if arr[0] == "array":
                    el = arr[1]
                    me = P(1)
                    if st == "usize":
                        ok = el == (me,)
                    elif st == "u64":
                        ok = len(el) == 1 and (el[0] == me or el[0] == ("cast", "IntToInt", me, "u64", "usize") or (
                            an.is_call(el[0], re.compile(r"Result::<usize, std::num::TryFromIntError>::unwrap$")) and
                            an.is_call(el[0][2][0], re.compile(r"^<u64 as std::convert::TryInto<usize>>::try_into$"), (me,))))
                    else:
                        lo = ("cast", "IntToInt", me, "u128", "usize")
                        hi = ("cast", "IntToInt", ("bin", "Shr", me, I(64, "i32")), "u128", "usize")
                        hi2 = ("cast", "IntToInt", ("bin", "Shr", me, I(64, "u32")), "u128", "usize")
                        ok = len(el) == 2 and el[0] == lo and el[1] in (hi, hi2)
            chk.ob("S-kmer-int", "%s::to_bitarray" % st, ok,
                   "to_bitarray = %s; expected the little-endian word decomposition [low word%s]" % (got, ", high word" if st == "u128" else ""), b["span"],
                   sample=got)
            n += 1
        b = an.one(chk, "S-kmer-int", bio, "%s::from_bitslice" % st, name="from_bitslice", trait="kmer::sealed::KmerStorage", self_re=imp)
        if b:
            paths, _ = an.analyse(cfg, b)
            res, ag = an.strip_assert_guards(paths)
            r = [p for p in paths if p.end == "return"]
            ok = len(r) == 1 and not res[id(r[0])] and an.is_call(r[0].ret, re.compile(r"BitField>::load_le::<%s>$" % st), (P(1),))
            chk.ob("S-kmer-int", "%s::from_bitslice" % st, ok, "from_bitslice = %s; expected load_le::<%s>(bits)" % (show(r[0].ret) if r else "?", st), b["span"])
            n += 1
    return n


def endian_order(chk, cfg):
    """crate-wide scan of resolved callees and types"""
    bio = cfg.bio
    loads = stores = views = 0
    for b in bio.bodies:
        for bl in b["blocks"]:
            if bl["cleanup"]:
                continue
            t = bl["term"]
            if t["k"] != "call" or "indirect" in t["func"]:
                continue
            key = t["func"].get("resolved_text") or t["func"]["text"]
            m = LOAD.search(key)
            if m:
                loads += 1
                chk.ob("I-endian", "%s: %s" % (b["path"], m.group(1)), m.group(1) == "load_le",
                       "reads an integer with %s; the documented packing is little-endian (load_le)" % m.group(1), t.get("line"))
            m = STORE.search(key)
            if m:
                stores += 1
                chk.ob("I-endian", "%s: %s" % (b["path"], m.group(1)), m.group(1) in ("store", "store_le"),
                       "writes an integer with %s; the documented packing is little-endian" % m.group(1), t.get("line"))
            if "view_bits" in key:
                views += 1
                chk.ob("I-order", "%s: view_bits" % b["path"], "::<bitvec::order::Lsb0>" in key, "bit view with order other than Lsb0: " + key, t.get("line"))
            if "Msb0" in key or any("Msb0" in a for a in t["func"].get("args", [])):
                chk.fail("I-order", "%s: %s" % (b["path"], short(key)), "mismatch", "Msb0 bit order used: " + key, t.get("line"))
        for l in b["locals"]:
            if "Msb0" in l["ty"]:
                chk.fail("I-order", b["path"], "mismatch", "a value of type %s (Msb0) is used" % l["ty"], b["span"])
                break
    for a in bio.adts.values():
        for v in a["variants"]:
            for f in v["fields"]:
                chk.ob("I-order", "%s.%s" % (a["path"], f["name"]), "Msb0" not in f["ty"], "field type %s uses Msb0" % f["ty"], a["span"], evals=1)
    return loads, stores, views


UNCHECKED = re.compile(r"bitvec::.*(_unchecked|get_unchecked|raw_mut|as_mut_bitptr|as_mut_ptr|from_raw_parts|set_len|set_unchecked|split_at_unchecked|align_to)")


def unchecked_scan(chk, cfg, rule="R-checked"):
    """zero-count rule: no unchecked / raw-mutable bitvec accessor anywhere in the crate.
    The matcher is exercised on a positive example on every run."""
    assert UNCHECKED.search("bitvec::slice::api::<impl bitvec::slice::BitSlice>::get_unchecked::<std::ops::Range<usize>>")
    assert UNCHECKED.search("bitvec::vec::BitVec::as_raw_mut_slice")
    n = 0
    for b in cfg.bio.bodies:
        for bl in b["blocks"]:
            if bl["cleanup"]:
                continue
            t = bl["term"]
            if t["k"] != "call" or "indirect" in t["func"]:
                continue
            n += 1
            key = t["func"].get("resolved_text") or t["func"]["text"]
            if UNCHECKED.search(key):
                chk.fail(rule, "%s: %s" % (b["path"], short(key)), "unchecked-accessor",
                         "uses %s: bounds or aliasing are no longer bitvec's responsibility, out-of-range access may not be refused" % key, t.get("line"))
    chk.ob(rule + "/scan", "all call sites[%s]" % cfg.name, True, evals=n, sample={"call_sites_scanned": n})
    return n
