"""Normal forms over engine terms.

norm(t) erases reference structure and rewrites the bitvec / view vocabulary
(appendix A model rows) into a small algebra:

  ('bits', x)            bit content of the sequence-like value x
  ('seqof', b)           the SeqSlice whose bits are b (pointer cast of a BitSlice)
  ('bslice', b, lo, hi)  sub-range of bits b; lo/hi canonical arithmetic terms (hi None = to the end)
  ('bitlen', b)          bitvec len
  ('L', x)               symbol length of sequence x  (= bitlen(bits x) / BITS)
  ('BITS',)              <A as Codec>::BITS as usize (generic codec)
  ('sslice', x, lo, hi)  symbol-level Index on a SeqSlice (lo/hi in symbols; hi None = end)
  ('sym1', x, i)         Index<usize>

poly(t) gives a canonical polynomial (dict monomial -> coef) for integer terms;
cmp_nf(term, truth) a canonical single comparison  (poly, op).
"""
import re

from terms import show, walk, is_int, I

WIDEN = {("u8", "usize"), ("u8", "u32"), ("u8", "u64"), ("u8", "u16"), ("u32", "usize"), ("u32", "u64"),
         ("u16", "usize"), ("u16", "u32"), ("usize", "usize"), ("u64", "usize"), ("usize", "u64"),
         ("u8", "u128"), ("u64", "u128"), ("usize", "u128"), ("u32", "u128")}

VIEW_FNS = re.compile(
    r"^<(&?seq::Seq<[^<>]*>|&?seq::array::SeqArray<[^<>]*>|&?kmer::Kmer<[^<>]*>|&?seq::slice::SeqSlice<[^<>]*>) as "
    r"(std::ops::Deref|std::convert::AsRef<seq::slice::SeqSlice<[^<>]*>>|std::borrow::Borrow<seq::slice::SeqSlice<[^<>]*>>)>::"
    r"(deref|as_ref|borrow)$")

BITVEC_INDEX = re.compile(
    r"^bitvec::(slice|vec|array)::ops::<impl std::ops::Index(Mut)?<std::ops::(Range|RangeTo|RangeFrom|RangeFull|RangeInclusive|RangeToInclusive)(<usize>)?> for bitvec::(slice::BitSlice|vec::BitVec|array::BitArray)(<[^>]*>)?>::index(_mut)?$")
SEQ_INDEX = re.compile(
    r"^<seq::slice::SeqSlice<[^<>]*> as std::ops::Index<(std::ops::(Range|RangeTo|RangeFrom|RangeFull|RangeInclusive|RangeToInclusive)(<usize>)?|usize)>>::index$")
SEQ_LEN = re.compile(r"^seq::slice::SeqSlice::<[^<>]*>::len$")
SEQ_EMPTY = re.compile(r"^seq::slice::SeqSlice::<[^<>]*>::is_empty$")
SPLIT_AT = re.compile(r"^bitvec::slice::api::<impl bitvec::slice::BitSlice(<[^>]*>)?>::split_at$")
BITLEN = re.compile(r"^bitvec::(slice|vec)::api::<impl bitvec::(slice::BitSlice|vec::BitVec)(<[^>]*>)?>::len$")
BV_DEREF = re.compile(r"^bitvec::vec::ops::<impl std::ops::Deref(Mut)? for bitvec::vec::BitVec(<[^>]*>)?>::deref(_mut)?$")
BAN_ASREF = re.compile(r"^<<S as kmer::sealed::KmerStorage>::BaN as std::convert::As(Mut|Ref)<bitvec::slice::BitSlice>>::as_(mut|ref)$")
BA_ASREF = re.compile(r"^bitvec::array::traits::<impl std::convert::As(Ref|Mut)<bitvec::slice::BitSlice(<[^>]*>)?> for bitvec::array::BitArray<[^>]*>>::as_(ref|mut)$|^<bitvec::array::BitArray<.*> as std::convert::As(Ref|Mut)<bitvec::slice::BitSlice>>::as_(ref|mut)$")


STR_PARSE = re.compile(r"^(?:core|std)::str::<impl str>::parse::<(.+)>$")
CONV_INTO = re.compile(r"^<(.+) as std::convert::Into<(.+)>>::into$")
CONV_FROM = re.compile(r"^<(.+) as std::convert::From<(.+)>>::from$")
CONV_IMPL = re.compile(r"^(?:[a-z_]+::)*<impl std::convert::From<(.+)> for (.+)>::from$")


def conv_key(key):
    """one spelling for a conversion: x.into(), U::from(x) and the resolved impl path all denote From<src> for dst"""
    m = CONV_INTO.match(key)
    if m:
        return m.group(1), m.group(2)
    m = CONV_FROM.match(key)
    if m:
        return m.group(2), m.group(1)
    m = CONV_IMPL.match(key)
    if m:
        return m.group(1), m.group(2)
    return None


def is_bits_field(t):
    return t[0] == "field" and t[3] in ("bs", "bv") and len(t) > 4 and t[4] is not None and (
        "BitSlice" in t[4] or "BitVec" in t[4])


def range_bounds(r):
    """(lo, hi) terms of a Range* aggregate; hi None = unbounded"""
    if not isinstance(r, tuple):
        return None
    if r[0] == "agg":
        n = r[1].split("::")[-1]
        ops = r[4]
        if n == "Range":
            return ops[0], ops[1]
        if n == "RangeTo":
            return I(0, "usize"), ops[0]
        if n == "RangeFrom":
            return ops[0], None
        if n == "RangeFull":
            return I(0, "usize"), None
        if n == "RangeToInclusive":
            return I(0, "usize"), ("bin", "Add", ops[0], I(1, "usize"))
        if n == "RangeInclusive":
            return ops[0], ("bin", "Add", ops[1], I(1, "usize"))
    if r[0] == "call" and r[1].startswith("std::ops::RangeInclusive::<") and r[1].endswith("::new"):
        return r[2][0], ("bin", "Add", r[2][1], I(1, "usize"))
    return None


class Norm:
    eng = None   # set by an.analyse: engine used to resolve generic associated consts

    def __init__(self, env=None, envs=None):
        self.cache = {}
        self.env = env or {}
        self.envs = envs or {}
        self.unknown_calls = set()

    def __call__(self, t):
        return self.norm(t)

    def norm(self, t):
        if not isinstance(t, tuple) or not t:
            return t
        if t in self.cache:
            return self.cache[t]
        r = self._norm(t)
        self.cache[t] = r
        return r

    def _norm(self, t):
        k = t[0]
        n = self.norm
        if k in ("ref",):
            return n(t[2])
        if k == "deref":
            return n(t[1])
        if k == "val":
            return n(t[1])
        if k == "lfield":
            b = n(t[1])
            ft = ("field", b, t[2], t[3], t[4] if len(t) > 4 else None)
            if is_bits_field(ft):
                return ("bits", b[1] if b[0] == "seqview" else b)
            if b[0] == "agg" and t[2] < len(b[4]):
                return b[4][t[2]]
            if b[0] == "tuple" and t[2] < len(b[1]):
                return b[1][t[2]]
            return ("F", b, t[3] if t[3] is not None else t[2])
        if k == "ldowncast":
            return ("downcast", n(t[1]), t[2], t[3])
        if k == "local":
            v = self.env.get(t[1]) if len(t) == 2 else self.envs.get(t[2], {}).get(t[1])
            if v is not None and not (isinstance(v, tuple) and v[0] in ("post", "loopvar", "uninit", "local")):
                return n(v)
            return t
        if k == "param":
            return ("P", t[1])
        if k in ("int", "cg", "str", "unit", "fn", "zst", "constref", "uninit", "unk", "static", "mem"):
            return t
        if k == "loopvar":
            return ("loopvar", t[1], t[2])
        if k == "ac":
            return self._assoc_const(t)
        if k == "cast":
            a = n(t[2])
            ck, fr, to = t[1], t[3], t[4]
            if ck == "IntToInt":
                if a[0] == "ac" and a[1].endswith("codec::Codec>::BITS") and a[1].startswith("<A as"):
                    return ("BITS",)
                if (fr, to) in WIDEN:
                    return a
                return ("cast", ck, a, fr, to)
            if ck.startswith("PtrToPtr"):
                if "SeqSlice<" in to and "BitSlice" in fr:
                    return ("seqof", a)
                return a if fr == to else ("cast", ck, a, fr, to)
            return ("cast", ck, a, fr, to)
        if k == "field":
            b = n(t[1])
            if b[0] == "call" and SPLIT_AT.match(b[1]) and len(b[2]) == 2 and t[2] in (0, 1):
                # bitvec model row: split_at(x, n) = (x[..n], x[n..])
                return ("bslice", b[2][0], canon(I(0, "usize")), canon(b[2][1])) if t[2] == 0 else ("bslice", b[2][0], canon(b[2][1]), None)
            if is_bits_field(t):
                if b[0] == "seqof":
                    return b[1]
                if b[0] == "seqview":
                    return ("bits", b[1])
                return ("bits", b)
            if b[0] == "agg" and t[2] < len(b[4]):
                return b[4][t[2]]
            if b[0] == "tuple" and t[2] < len(b[1]):
                return b[1][t[2]]
            return ("F", b, t[3] if t[3] is not None else t[2])
        if k == "downcast":
            return ("downcast", n(t[1]), t[2], t[3])
        if k == "bin":
            a, b = n(t[2]), n(t[3])
            if t[1] == "Div" and a[0] == "bitlen" and b == ("BITS",) and a[1][0] == "bits":
                return ("L", a[1][1])
            return ("bin", t[1], a, b)
        if k == "un":
            return ("un", t[1], n(t[2]))
        if k in ("tuple", "array"):
            return (k, tuple(n(x) for x in t[1]))
        if k == "agg":
            return ("agg", t[1], t[2], t[3], tuple(n(x) for x in t[4]))
        if k == "closure":
            return ("closure", t[1], t[2], tuple(n(x) for x in t[3]))
        if k == "post":
            return ("post", t[1], n(t[2]))
        if k == "discr":
            return ("discr", n(t[1]))
        if k == "index":
            return ("index", n(t[1]), n(t[2]))
        if k == "call":
            key = t[1]
            args = tuple(n(a) for a in t[2])
            if BV_DEREF.match(key) or BA_ASREF.match(key) or BAN_ASREF.match(key):
                return args[0]
            if BITLEN.match(key):
                return ("bitlen", args[0])
            if SEQ_LEN.match(key):
                x = args[0]
                x = x[1] if x[0] == "seqview" else x
                if x[0] == "sslice" and x[3] is not None:
                    # row R01-R05 (C03): a slice lo..hi has hi - lo symbols
                    return ("bin", "Sub", x[3], x[2])
                if x[0] == "sym1":
                    return I(1, "usize")
                return ("L", x)
            if SEQ_EMPTY.match(key):
                return ("isempty", args[0])
            m = BITVEC_INDEX.match(key)
            if m:
                rb = range_bounds(args[1])
                if rb is not None:
                    lo, hi = rb
                    if is_int(lo) and lo[1] == 0 and hi is None:
                        return args[0]
                    return ("bslice", args[0], canon(lo), canon(hi) if hi is not None else None)
            m = SEQ_INDEX.match(key)
            if m:
                x = args[0]
                if x[0] == "seqview":
                    x = x  # keep: slice of a view
                if m.group(1) == "usize":
                    return ("sym1", x, canon(args[1]))
                rb = range_bounds(args[1])
                if rb is not None:
                    lo, hi = rb
                    if hi is None and pkey(poly(lo)) == pkey({}):
                        return x        # `s[..]` and `s[0..]` are s (C03 R-index rows for RangeFull / RangeFrom)
                    return ("sslice", x, canon(lo), canon(hi) if hi is not None else None)
            ck = conv_key(key)
            if ck is not None:
                return ("call", "CONV<%s -> %s>" % ck, args, None)
            if VIEW_FNS.match(key):
                x = args[0]
                if re.match(r"^<&?seq::slice::SeqSlice<", key):
                    return x
                if x[0] == "seqview":
                    return x
                return ("seqview", x)
            r = self._pure_helper(key, args)
            if r is not None:
                return r
            m = STR_PARSE.match(key)
            if m:
                # `s.parse::<T>()` is documented as, and implemented by, `T::from_str(s)`
                return ("call", "<%s as std::str::FromStr>::from_str" % m.group(1), args) + tuple(t[3:])
            return ("call", key, args) + tuple(t[3:])
        return t

    _pure_cache = {}

    def _pure_helper(self, key, args):
        """A call to a crate-private function that is a pure expression of its arguments (one path, no guards, no calls, no
        stores - e.g. `fn bit_len() -> usize { K * A::BITS as usize }`) is replaced by that expression, whatever inlining policy
        the analysis ran under."""
        eng = Norm.eng
        if eng is None:
            return None
        ck = (id(eng), key)
        if ck not in Norm._pure_cache:
            Norm._pure_cache[ck] = None
            bs = eng.by_path.get(key) or eng.by_path.get(re.sub(r"::<[^<>]*(<[^<>]*>[^<>]*)*>(?=::\w+$)", lambda m: m.group(0), key))
            if bs and len(bs) == 1:
                b0 = bs[0]
                imp = b0.get("impl") or {}
                import canon as _canon
                fz = _canon.frozen_fns()
                # private helpers, and functions the pinned tree does not have (a new `as_slice()`): no rule names them
                fresh = bool(fz) and b0["path"] not in fz
                if b0["kind"] in ("Fn", "AssocFn") and (not b0["vis"].startswith("Public") or fresh) and not imp.get("trait") and not imp.get("trait_default"):
                    import terms
                    try:
                        outs = terms.Analysis(eng, terms.Policy()).run(b0, [("param", i + 1) for i in range(b0.get("arg_count", 0))])
                    except Exception:
                        outs = []
                    live = [o for o in outs if o.end != "panic"]
                    def readonly(c):
                        # a call that can only read: no `&mut` among its parameter types (Deref::deref, len(), as_ref() ...)
                        return not any("&mut" in (x or "") or "&'a mut" in (x or "") for x in (c.callee.get("args") or [])) and \
                            not re.search(r"&('\w+ )?mut ", " ".join(c.callee.get("sig_args") or []))
                    if len(live) == 1 and live[0].end == "return" and not live[0].guards and not live[0].stores and \
                            not [c for c in live[0].calls if not getattr(c, "inlined", False) == "model" and not readonly(c)] and len(outs) == 1 and \
                            not any("mut " in (l.get("ty") or "") for l in (b0.get("locals") or [])[1:1 + b0.get("arg_count", 0)]):
                        Norm._pure_cache[ck] = (b0.get("arg_count", 0), Norm(env=None).norm(live[0].ret))
        hit = Norm._pure_cache[ck]
        if hit is None or hit[0] != len(args):
            return None
        n, body = hit
        m = {("P", i + 1): args[i] for i in range(n)}

        def sub(t):
            if isinstance(t, tuple):
                if t in m:
                    return m[t]
                return tuple(sub(x) if isinstance(x, tuple) else x for x in t)
            return t
        return sub(body)


    _ac_cache = {}

    def _assoc_const(self, t):
        """a generic associated const defined in the crate (e.g. Kmer::BITS = K * A::BITS) is replaced by its body"""
        eng = Norm.eng
        if eng is None:
            return t
        key = (id(eng), t[1])
        if key in Norm._ac_cache:
            return Norm._ac_cache[key]
        r = t
        bs = eng.by_path.get(t[1]) or eng.by_path.get(getattr(eng, "ac_def", {}).get(t[1], ""))
        inst = None
        if not bs and len(t) > 2 and t[2]:
            # an instantiation `Kmer::<Dna, K, usize>::BITS` of a generic associated const `Kmer::<A, K, S>::BITS`: its body with
            # the generic arguments put in (the codec's width where the codec is concrete)
            strip = lambda x: re.sub(r"::<[^<>]*(?:<[^<>]*>[^<>]*)*>", "", x)
            cands = [k for k, v in eng.by_path.items() if v and v[0]["kind"].startswith("AssocConst") and strip(k) == strip(t[1]) and k != t[1]]
            if len(cands) == 1:
                bs = eng.by_path[cands[0]]
                gens = [g for g in (bs[0].get("generics") or []) if not g.startswith("'") and not g.startswith("<")]
                if len(gens) == len(t[2]):
                    inst = dict(zip(gens, t[2]))
        if bs and bs[0]["kind"].startswith("AssocConst"):
            import terms
            try:
                outs = terms.Analysis(eng, terms.Policy()).run(bs[0], [])
                rets = [o for o in outs if o.end == "return"]
                if len(rets) == 1 and not rets[0].guards:
                    Norm._ac_cache[key] = t
                    r = Norm(env=None).norm(rets[0].ret)
                    if inst is not None:
                        codec = inst.get("A")
                        width = None
                        if codec and codec != "A":
                            for e in (getattr(eng, "evals", {}) or {}).get("<%s as codec::Codec>::BITS" % codec, []):
                                if "val" in e:
                                    width = int(e["val"])
                        if width is not None:
                            def sub(x):
                                if x == ("BITS",):
                                    return ("int", width, "usize")
                                if isinstance(x, tuple):
                                    return tuple(sub(y) if isinstance(y, tuple) else y for y in x)
                                return x
                            r = sub(r)
            except Exception:
                r = t
        Norm._ac_cache[key] = r
        return r


# ---------- polynomials ----------
def _atom_key(a):
    return repr(a)


def poly(t):
    """dict: monomial (sorted tuple of atoms) -> int coefficient"""
    if is_int(t):
        return {(): t[1]} if t[1] else {}
    if isinstance(t, tuple) and t[0] == "poly":
        return {m: c for m, c in t[1]}
    if isinstance(t, tuple) and t[0] == "bin" and t[1] in ("Add", "Sub", "Mul"):
        a, b = poly(t[2]), poly(t[3])
        if t[1] == "Add":
            return padd(a, b, 1)
        if t[1] == "Sub":
            return padd(a, b, -1)
        return pmul(a, b)
    return {(t,): 1}


def padd(a, b, s):
    r = dict(a)
    for m, c in b.items():
        r[m] = r.get(m, 0) + s * c
        if r[m] == 0:
            del r[m]
    return r


def pmul(a, b):
    r = {}
    for m1, c1 in a.items():
        for m2, c2 in b.items():
            m = tuple(sorted(m1 + m2, key=_atom_key))
            r[m] = r.get(m, 0) + c1 * c2
            if r[m] == 0:
                del r[m]
    return r


def pkey(p):
    return tuple(sorted(((m, c) for m, c in p.items()), key=lambda mc: (tuple(_atom_key(a) for a in mc[0]), mc[1])))


def pshow(k):
    if not k:
        return "0"
    out = []
    for m, c in k:
        f = "*".join(show(a) for a in m)
        if not m:
            out.append(str(c))
        elif c == 1:
            out.append(f)
        else:
            out.append("%d*%s" % (c, f))
    return " + ".join(out)


def canon(t):
    """canonical term for an integer expression: polynomial rebuilt in sorted order"""
    if t is None:
        return None
    p = poly(t)
    return ("poly", pkey(p))


def peq(a, b):
    return pkey(poly(a)) == pkey(poly(b))


FLIP = {"Lt": "Gt", "Le": "Ge", "Gt": "Lt", "Ge": "Le", "Eq": "Eq", "Ne": "Ne"}
NEG = {"Lt": "Ge", "Le": "Gt", "Gt": "Le", "Ge": "Lt", "Eq": "Ne", "Ne": "Eq"}   # on canonical guards only Ge/Lt and Eq/Ne occur


def _lead(d):
    """coefficient of the first non-constant monomial in key order (None for a constant polynomial)"""
    for m, c in pkey(d):
        if m:
            return c
    return None


SIGNED_SEEN = False   # set by the facts loader when the analysed crate contains signed integer arithmetic


def cmp_canon(d, op):
    """Canonical form of `d op 0` over the integers: ops are Eq, Ne, Ge (d >= 0) and Lt (d < 0); strict and non-strict forms
    are folded (d > 0 is d - 1 >= 0, d <= 0 is d - 1 < 0) and the sign is fixed so that the first non-constant monomial has a
    positive coefficient.  Ge and Lt of the same polynomial are each other's negation."""
    d = dict(d)
    one = {(): 1}
    if op == "Gt":
        d, op = padd(d, one, -1), "Ge"
    elif op == "Le":
        d, op = padd(d, one, -1), "Lt"
    lc = _lead(d)
    if lc is not None and lc < 0:
        neg = {m: -c for m, c in d.items()}
        if op == "Ge":          # d >= 0  <=>  -d <= 0  <=>  -d - 1 < 0
            d, op = padd(neg, one, -1), "Lt"
        elif op == "Lt":        # d < 0   <=>  -d > 0   <=>  -d - 1 >= 0
            d, op = padd(neg, one, -1), "Ge"
        else:
            d = neg
    if op in ("Eq", "Ne") and not SIGNED_SEEN:
        # a single unsigned atom against zero: x != 0 is x >= 1 and x == 0 is x < 1 (`if i == 0 { return None }` and
        # `i.checked_sub(1)?` state the same guard)
        nz = [(m, c) for m, c in d.items() if c]
        if len(nz) == 1 and nz[0][0] and len(nz[0][0]) == 1 and nz[0][1] == 1:
            d, op = padd(d, one, -1), ("Ge" if op == "Ne" else "Lt")
    return (pkey(d), op)


def align_cmp(key, op, bits):
    """`key op 0` restated over symbol lengths for aligned content: every atom bitlen(bits(x)) is bits * L(x) when x holds a whole
    number of `bits`-wide symbols (invariant I-align, established at every constructor for typed input).  After the substitution an
    Eq/Ne comparison whose coefficients all share a factor is divided by it (4*L(a) - 4*L(b) != 0 is L(a) - L(b) != 0;
    2*L(x) - 6 == 0 is L(x) - 3 == 0).  Comparisons without such an atom are returned unchanged."""
    from math import gcd
    d, hit = {}, False
    for m, c in key:
        k = 1
        mm = []
        for a in m:
            if isinstance(a, tuple) and a[0] == "bitlen" and isinstance(a[1], tuple) and a[1][0] == "bits":
                mm.append(("L", a[1][1]))
                k *= bits
                hit = True
            else:
                mm.append(a)
        mm = tuple(sorted(mm, key=_atom_key))
        d[mm] = d.get(mm, 0) + c * k
    if not hit:
        return (key, op)
    d = {m: c for m, c in d.items() if c}
    if op in ("Eq", "Ne") and d:
        g = 0
        for c in d.values():
            g = gcd(g, abs(c))
        if g > 1:
            d = {m: c // g for m, c in d.items()}
    return cmp_canon(d, op)


def cmp_nf(t, truth=True):
    """Canonical form of comparison term t (already normalised) being `truth`, or None if t is not a comparison."""
    if not (isinstance(t, tuple) and t[0] == "bin" and t[1] in FLIP):
        if isinstance(t, tuple) and t[0] == "un" and t[1] == "Not":
            return cmp_nf(t[2], not truth)
        return None
    op = t[1] if truth else NEG[t[1]]
    d = padd(poly(t[2]), poly(t[3]), -1)
    return cmp_canon(d, op)


def const_truth(k, op):
    """truth value of a canonical comparison whose polynomial is a constant, else None"""
    if any(m for m, c in k):
        return None
    v = k[0][1] if k else 0
    return {"Eq": v == 0, "Ne": v != 0, "Ge": v >= 0, "Lt": v < 0, "Gt": v > 0, "Le": v <= 0}[op]


def _nonneg(d):
    return all(c >= 0 for c in d.values())


def entails(guards, d, axioms=()):
    """Does the conjunction of canonical guards (pkey, op) - with every atom a non-negative integer - entail d >= 0 ?
    A small certificate search, no solver: d itself has no negative coefficient; or d - m*r has none for a hypothesis r >= 0
    and a monomial m of d (or 1)."""
    d = {m: c for m, c in d.items() if c}
    if _nonneg(d):
        return True
    hyps = []
    for k, op in list(guards) + list(axioms):
        r = dict(k)
        if op == "Ge":
            hyps.append(r)
        elif op == "Lt":                       # r < 0  <=>  -r - 1 >= 0
            hyps.append(padd({m: -c for m, c in r.items()}, {(): 1}, -1))
        elif op == "Eq":
            hyps.append(r)
            hyps.append({m: -c for m, c in r.items()})
        elif op == "Ne":
            # x != 0 for a single non-negative atom x  =>  x - 1 >= 0
            ms = [m for m in r if m]
            if len(ms) == 1 and len(r) == 1 and abs(r[ms[0]]) == 1:
                hyps.append({ms[0]: 1, (): -1})
    mults = [()] + [m for m in d if m]
    for atoms in list(mults):
        for a in atoms:
            if (a,) not in mults:
                mults.append((a,))
    for r in hyps:
        for m in mults:
            mr = pmul({m: 1}, r) if m else r
            if _nonneg({k: c for k, c in padd(d, mr, -1).items() if c}):
                return True
    # two hypotheses added up (e.g. i + w <= len and w >= 1)
    for i, r1 in enumerate(hyps):
        for r2 in hyps[i + 1:]:
            if _nonneg({k: c for k, c in padd(padd(d, r1, -1), r2, -1).items() if c}):
                return True
    return False


def mk_cmp(a, op, b):
    """expected comparison in canonical form"""
    return cmp_nf(("bin", op, a, b), True)


def guard_nf(norm, g):
    """g = (term, (op, value), line) from a path"""
    t, (op, v) = g[0], g[1]
    nt = norm(t)
    if op == "==" and isinstance(v, bool):
        c = cmp_nf(nt, v)
        if c is not None:
            return ("cmp",) + c
        while isinstance(nt, tuple) and nt[0] == "un" and nt[1] == "Not":
            nt, v = nt[2], not v
        return ("bool", nt, v)
    if op in ("==", "!=") and isinstance(v, int) and not isinstance(v, bool) and isinstance(nt, tuple) and nt[0] != "discr" and _is_arith(nt):
        # `match i { 0 => .., _ => .. }` on an integer is the comparison i == 0 / i != 0
        return ("cmp",) + cmp_canon(padd(poly(nt), {(): v}, -1), "Eq" if op == "==" else "Ne")
    if op == "notin" and isinstance(v, tuple) and len(v) == 1 and isinstance(v[0], int) and not isinstance(v[0], bool) and \
            isinstance(nt, tuple) and nt[0] != "discr" and _is_arith(nt):
        return ("cmp",) + cmp_canon(padd(poly(nt), {(): v[0]}, -1), "Ne")
    return ("sw", nt, op, v)


def _is_arith(t):
    """an integer-valued term (a place, a length, arithmetic on those) - not an enum value"""
    return isinstance(t, tuple) and t[0] in ("P", "F", "L", "bin", "poly", "loopvar", "BITS", "K")


def shown(t):
    return show(t)
