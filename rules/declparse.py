"""Token-level parser for the declarations that exist only as tokens before
macro expansion: enums deriving `Codec` with their `#[bits]`, `#[display]`,
`#[alt]` attributes and discriminants.  A real tokenizer (comments, strings,
char and byte literals, numeric literals with `_` and radix prefixes), not
text matching.
"""
import re

TOKEN = re.compile(r"""
    (?P<ws>\s+)
  | (?P<lc>//[^\n]*)
  | (?P<bc>/\*)
  | (?P<bytechar>b'(?:\\.|[^\\'])')
  | (?P<char>'(?:\\(?:x[0-9a-fA-F]{2}|u\{[0-9a-fA-F]+\}|.)|[^\\'])')
  | (?P<life>'[A-Za-z_][A-Za-z0-9_]*)
  | (?P<rawstr>b?r(?P<h>\#*)".*?"(?P=h))
  | (?P<str>b?"(?:\\.|[^\\"])*")
  | (?P<num>0b[01_]+|0x[0-9a-fA-F_]+|0o[0-7_]+|[0-9][0-9_]*)(?P<suf>[ui](?:8|16|32|64|128|size))?
  | (?P<ident>[A-Za-z_][A-Za-z0-9_]*)
  | (?P<punct>::|->|=>|==|!=|<=|>=|&&|\|\||<<|>>|[\[\](){}<>#!=,;:.+\-*/%&|^~?@$])
""", re.X | re.S)


def tokenize(src):
    toks = []
    i = 0
    n = len(src)
    line = 1
    while i < n:
        m = TOKEN.match(src, i)
        if not m:
            i += 1
            continue
        k = m.lastgroup
        text = m.group(0)
        if m.group("bc"):
            depth = 1
            j = m.end()
            while j < n and depth:
                if src.startswith("/*", j):
                    depth += 1
                    j += 2
                elif src.startswith("*/", j):
                    depth -= 1
                    j += 2
                else:
                    j += 1
            line += src.count("\n", i, j)
            i = j
            continue
        if m.group("ws") or m.group("lc"):
            line += text.count("\n")
            i = m.end()
            continue
        kind = None
        for g in ("bytechar", "char", "life", "rawstr", "str", "num", "ident", "punct"):
            if m.group(g) is not None:
                kind = g
                break
        if kind == "num":
            text = m.group("num")
        toks.append((kind, text, line))
        line += m.group(0).count("\n")
        i = m.end()
    return toks


def lit_value(kind, text):
    if kind == "num":
        t = text.replace("_", "")
        if t.startswith("0b"):
            return int(t[2:], 2)
        if t.startswith("0x"):
            return int(t[2:], 16)
        if t.startswith("0o"):
            return int(t[2:], 8)
        return int(t)
    if kind in ("bytechar", "char"):
        body = text[2:-1] if kind == "bytechar" else text[1:-1]
        if body.startswith("\\"):
            esc = {"n": 10, "r": 13, "t": 9, "\\": 92, "0": 0, "'": 39, '"': 34}
            if body[1] == "x":
                return int(body[2:4], 16)
            if body[1] == "u":
                return int(body[3:-1], 16)
            return esc.get(body[1])
        return ord(body)
    return None


def _group(toks, i, open_, close):
    """toks[i] == open_; return index after matching close and the inner tokens."""
    depth = 0
    j = i
    while j < len(toks):
        if toks[j][1] == open_ and toks[j][0] == "punct":
            depth += 1
        elif toks[j][1] == close and toks[j][0] == "punct":
            depth -= 1
            if depth == 0:
                return j + 1, toks[i + 1:j]
        j += 1
    return j, toks[i + 1:]


def parse_attrs(toks, i):
    """Parse consecutive outer attributes starting at i. Returns (i, [(name, inner tokens)])."""
    attrs = []
    while i + 1 < len(toks) and toks[i][1] == "#" and toks[i + 1][1] == "[":
        j, inner = _group(toks, i + 1, "[", "]")
        if inner:
            name = inner[0][1]
            args = []
            if len(inner) > 1 and inner[1][1] == "(":
                _, args = _group(inner, 1, "(", ")")
            attrs.append((name, args, inner))
        i = j
    return i, attrs


def parse_codec_enums(src, require_derive=True):
    """Return the enums (deriving Codec) declared in src."""
    toks = tokenize(src)
    out = []
    i = 0
    while i < len(toks):
        start = i
        i2, attrs = parse_attrs(toks, i)
        j = i2
        # visibility
        if j < len(toks) and toks[j][1] == "pub":
            j += 1
            if j < len(toks) and toks[j][1] == "(":
                j, _ = _group(toks, j, "(", ")")
        if j + 1 < len(toks) and toks[j] [1] == "enum" and toks[j + 1][0] == "ident":
            name = toks[j + 1][1]
            line = toks[j][2]
            k = j + 2
            while k < len(toks) and toks[k][1] != "{":
                k += 1
            end, body = _group(toks, k, "{", "}")
            derives = []
            bits = None
            for an, args, _ in attrs:
                if an == "derive":
                    derives += [t[1] for t in args if t[0] == "ident"]
                if an == "bits" and args:
                    bits = lit_value(args[0][0], args[0][1])
            if "Codec" in derives or not require_derive:
                out.append({"name": name, "line": line, "bits": bits, "derives": derives,
                            "variants": _parse_variants(body)})
            i = end
            continue
        i = max(i2, start + 1) if i2 == start else i2
        if i2 == start:
            i = start + 1
    return out


def _parse_variants(body):
    vs = []
    i = 0
    while i < len(body):
        i, attrs = parse_attrs(body, i)
        if i >= len(body):
            break
        if body[i][0] != "ident":
            i += 1
            continue
        name = body[i][1]
        line = body[i][2]
        i += 1
        discr = None
        discr_kind = None
        # skip tuple/struct payloads
        if i < len(body) and body[i][1] in ("(", "{"):
            i, _ = _group(body, i, body[i][1], ")" if body[i][1] == "(" else "}")
        if i < len(body) and body[i][1] == "=":
            i += 1
            expr = []
            while i < len(body) and body[i][1] != ",":
                expr.append(body[i])
                i += 1
            if len(expr) == 1:
                discr = lit_value(expr[0][0], expr[0][1])
                discr_kind = expr[0][0]
            else:
                discr_kind = "expr"
        if i < len(body) and body[i][1] == ",":
            i += 1
        display = None
        alts = []
        for an, args, _ in attrs:
            if an == "display" and args:
                display = lit_value(args[0][0], args[0][1])
            if an == "alt":
                for t in args:
                    if t[0] in ("num", "bytechar"):
                        alts.append(lit_value(t[0], t[1]))
        vs.append({"name": name, "line": line, "discr": discr, "discr_kind": discr_kind,
                   "display": display, "alts": alts})
    return vs


if __name__ == "__main__":
    import sys, json
    for p in sys.argv[1:]:
        print(json.dumps(parse_codec_enums(open(p).read()), indent=1))
