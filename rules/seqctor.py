"""Typestate invariants over every construction and in-place mutation of `Seq.bv`.

I-head  : the vector starts at bit 0 of word 0 (needed by into_raw/from_raw, C04)
I-align : the vector's length is a whole number of symbols (needed everywhere; C06)

Both are established by *all* constructors (every `Seq { .. }` aggregate in the
crate) and preserved by *all* mutators (every effect on `self.bv` in a method
with a `&mut Seq` receiver), using the head/length columns of the bitvec model
(DESIGN.md appendix A).
"""
import re

import an
import nf
from an import P, F, BITS, mul, canon, short
from terms import show, walk

# bitvec model, head column
ALIGNED_SOURCES = {"new", "with_capacity", "from_slice", "from_vec", "default"}
COPIES_HEAD = {"from_bitslice", "to_bitvec", "clone", "from", "into", "to_owned"}
LHS_HEAD = {"bitand", "bitor", "bitxor"}
PRESERVE_HEAD = {"extend_from_bitslice", "truncate", "drain", "clear", "bitand_assign", "bitor_assign", "bitxor_assign",
                 "reverse", "push", "extend", "set", "store", "store_le", "shrink_to_fit", "reserve", "insert", "remove", "pop"}
FORCE = {"force_align"}
# bitvec methods taking the receiver by shared reference: no effect on self.bv
READ_ONLY = {"len", "deref", "index", "capacity", "as_raw_slice", "is_empty", "iter", "clone", "hash", "split_at", "split_first", "split_last", "first", "last",
             "get", "chunks", "chunks_exact", "rchunks", "rchunks_exact", "windows", "to_bitvec", "count_ones", "count_zeros", "any", "all", "not_any", "not_all",
             "some", "load", "load_le", "load_be", "as_bitslice", "eq", "ne", "cmp", "partial_cmp", "starts_with", "ends_with", "contains", "leading_zeros",
             "leading_ones", "trailing_zeros", "trailing_ones", "first_one", "last_one", "first_zero", "last_zero", "iter_ones", "iter_zeros", "by_vals", "by_refs",
             "as_ref", "borrow", "to_owned", "as_bitptr", "as_bitptr_range", "bit_domain", "domain", "repeat", "fmt"}
# in-place effects that keep the length
KEEP_LEN = {"bitand_assign", "bitor_assign", "bitxor_assign", "reverse", "set", "store", "store_le", "shrink_to_fit", "reserve",
            "force_align", "chunks_exact_mut", "rchunks_exact_mut", "chunks_mut", "as_mut_bitslice", "deref_mut", "index_mut"}


def is_bitvec_key(key):
    return "bitvec::" in key


class St:
    def __init__(self, ok, why):
        self.ok = ok
        self.why = why


def seq_typed(body, term):
    """is the base of bits(term) an owned Seq (as opposed to a SeqSlice window)?"""
    t = term
    while isinstance(t, tuple) and t[0] in ("F", "seqview"):
        if t[0] == "seqview":
            t = t[1]
            continue
        t = t[1]
    if isinstance(t, tuple) and t[0] == "P":
        ty = body["locals"][t[1]]["ty"]
        if term[0] == "P":
            return bool(re.match(r"^&?(mut )?seq::Seq<", ty))
    return False


def head_state(body, p, t, N):
    """t: raw term of the bv operand"""
    base, ids = an.peel_posts(t)
    evs = {x[3].idx: x for x in p.calls}
    forced = False
    for i in ids:
        x = evs.get(i)
        if x is None:
            return St(False, "mutated by an unknown call")
        s = short(x[0])
        if s in FORCE:
            forced = True
        elif s not in PRESERVE_HEAD:
            return St(False, "mutated by %s, which has no head row in the bitvec model" % s)
    if forced:
        return St(True, "force_align")
    nb = N(base)
    return head_of_norm(body, nb)


def head_of_norm(body, nb):
    if nb[0] == "call":
        s = short(nb[1])
        if s in ALIGNED_SOURCES and ("bitvec::vec" in nb[1] or "BitVec" in nb[1]):
            return St(True, s)
        if s in COPIES_HEAD or s in LHS_HEAD:
            return head_of_norm(body, nb[2][0])
        return St(False, "built by %s, which has no head row in the bitvec model" % nb[1])
    if nb[0] == "bits":
        if seq_typed(body, nb[1]):
            return St(True, "content of an owned Seq (induction hypothesis)")
        return St(False, "copies the head offset of a borrowed slice (%s)" % show(nb))
    if nb[0] == "post":
        return St(False, "unexpected mutation chain")
    return St(False, "vector of unknown provenance: %s" % show(nb)[:80])


def len_state(body, p, t, N, bits_const):
    """is the bit length of the vector a whole number of symbols?"""
    base, ids = an.peel_posts(t)
    evs = {x[3].idx: x for x in p.calls}
    nb = N(base)
    st = len_of_norm(body, nb, bits_const)
    for i in ids:
        x = evs.get(i)
        if x is None:
            return St(False, "mutated by an unknown call")
        s = short(x[0])
        args = x[1]
        if s == "extend_from_bitslice":
            a = args[1]
            if not (a[0] == "bits" or (a[0] == "bslice" and _sym_range(a))):
                return St(False, "extended by %s, not a whole number of symbols" % show(a)[:60])
        elif s == "truncate":
            if _is_sym_bits(args[1]):
                st = St(True, "truncate(n*BITS)")
            else:
                return St(False, "truncated to %s, not n*BITS" % show(args[1]))
        elif s in KEEP_LEN or s == "clear":
            pass
        elif s == "drain":
            pass
        else:
            return St(False, "mutated by %s (no length row)" % s)
    return st


def _is_sym_bits(t):
    p = nf.poly(t)
    return bool(p) and all(any(a == BITS for a in m) for m in p) or not p


def _sym_range(a):
    lo, hi = a[2], a[3]
    return _is_sym_bits(lo) and (hi is None or _is_sym_bits(hi))


def len_of_norm(body, nb, bits_const):
    if nb[0] == "call":
        s = short(nb[1])
        if s in ("new", "with_capacity", "default"):
            return St(True, "empty")
        if s in ("from_slice", "from_vec"):
            if bits_const is not None and 64 % bits_const == 0:
                return St(True, "whole words, BITS divides 64")
            return St(False, "whole words (64*n bits) are not a whole number of symbols for every codec")
        if s in COPIES_HEAD or s in LHS_HEAD:
            return len_of_norm(body, nb[2][0], bits_const)
        return St(False, "built by %s" % nb[1])
    if nb[0] == "bits":
        return St(True, "content of a sequence (induction hypothesis)")
    return St(False, "vector of unknown provenance: %s" % show(nb)[:80])


# raw bit-level constructors documented as **Unstable**: the caller supplies the bits, alignment of the
# length is the caller's obligation (reason for the exception: they are the escape hatch from the typed API)
RAW_CTORS = (r"^seq::<impl std::convert::From<&bitvec::slice::BitSlice> for seq::Seq<A>>::from$",
             r"^seq::<impl std::convert::From<bitvec::vec::BitVec> for seq::Seq<A>>::from$")


def seq_aggregates(crate):
    """bodies that build a `Seq { .. }` value"""
    out = []
    for b in crate.bodies:
        n = 0
        for bl in b["blocks"]:
            if bl["cleanup"]:
                continue
            for s in bl["stmts"]:
                if s["k"] == "assign" and s["rv"]["k"] == "aggregate" and s["rv"].get("adt") == "seq::Seq":
                    n += 1
        if n:
            out.append((b, n))
    return out


def _is_helper(b):
    imp = b.get("impl") or {}
    return b["kind"] in ("Fn", "AssocFn") and not b["vis"].startswith("Public") and not imp.get("trait") and not imp.get("trait_default")


def ctor_bodies(crate):
    """Bodies judged as constructors: those building a `Seq { .. }` value themselves, and those doing it through a crate-private
    helper (a private/pub(crate) function holding the literal is inlined at its callers and judged there, never in isolation:
    its argument is whatever the callers pass)."""
    lit = seq_aggregates(crate)
    # a literal inside a closure (`cond.then(|| Seq { .. })`) is judged in the function the closure belongs to, where its captures
    # are known and the combinator is presented as the match it abbreviates
    byp = {}
    for b in crate.bodies:
        byp.setdefault(b["path"], []).append(b)
    lit2 = []
    for b, n in lit:
        cur = b
        while cur is not None and cur["kind"] == "Closure":
            ps = byp.get(cur.get("parent") or "", [])
            cur = ps[0] if len(ps) == 1 else None
        if cur is None:
            lit2.append((b, n))
        elif not any(x is cur for x, _ in lit2):
            lit2.append((cur, n))
    lit = lit2
    helpers = {b["path"] for b, _ in lit if _is_helper(b)}
    out = [(b, n) for b, n in lit if not _is_helper(b)]
    seen = {b["path"] for b, _ in out}
    callers_of = {h: 0 for h in helpers}
    changed = True
    while changed:
        changed = False
        for b in crate.bodies:
            if b["path"] in seen:
                continue
            hit = 0
            for bl in b["blocks"]:
                t = bl["term"]
                if bl["cleanup"] or t["k"] != "call" or "indirect" in t["func"]:
                    continue
                for key in (t["func"].get("resolved"), t["func"].get("def")):
                    if key in helpers:
                        hit += 1
                        callers_of[key] = callers_of.get(key, 0) + 1
                        break
            if hit:
                seen.add(b["path"])
                if _is_helper(b):
                    if b["path"] not in helpers:
                        helpers.add(b["path"])
                        changed = True
                else:
                    out.append((b, hit))
    return out, helpers, callers_of


def check(chk, cfg, which):
    """which: 'I-head' or 'I-align'"""
    bio = cfg.bio
    nctor = 0
    ctors, helpers, callers_of = ctor_bodies(bio)
    for h in sorted(helpers):
        chk.note("%s: crate-private constructor helper, judged at its %d inlining call sites" % (h, callers_of.get(h, 0)))
    for b, n in ctors:
        imp = b.get("impl") or {}
        what = b["path"]
        if imp.get("derived") or "_serde" in what or "Deserialize" in what:
            chk.note("derived Deserialize builds Seq from its serialised fields (C18); not a typed constructor")
            continue
        paths, _ = an.analyse(cfg, b)
        bits_const = None
        m = re.search(r"seq::Seq<(codec::[a-z_:]+::[A-Za-z]+)>", (imp.get("self_ty") or "") + " " + b["ret_ty"])
        if m:
            bits_const = bio.const_val("<%s as codec::Codec>::BITS" % m.group(1))
            bits_const = int(bits_const) if bits_const is not None else None
        found = 0
        for p in paths:
            if p.end != "return":
                continue
            N = an.norm_of(p)
            aggs = [t for t in walk(p.raw.ret) if t[0] == "agg" and t[1] == "seq::Seq"]
            for lv, v in p.raw.stores:
                aggs += [t for t in walk(v) if t[0] == "agg" and t[1] == "seq::Seq"]
            for a in aggs:
                found += 1
                bv = a[4][1] if len(a[4]) > 1 else None
                if bv is None:
                    chk.cannot(which, what, "Seq literal without a bv operand", b["span"])
                    continue
                if which == "I-head":
                    st = head_state(b, p, bv, N)
                    chk.ob("I-head", what, st.ok,
                           "constructs Seq.bv not starting at bit 0 of word 0: %s; into_raw() would export a shifted image" % st.why,
                           b["span"], kind="unaligned-head", sample={"ctor": what, "head": st.why})
                else:
                    targ = (imp.get("trait_args") or ["", ""])[1:] if imp.get("trait") == "std::convert::From" else []
                    if targ and re.sub(r"<.*>", "", targ[0].lstrip("&")) in ("bitvec::slice::BitSlice", "bitvec::vec::BitVec"):
                        chk.note("%s: documented **Unstable** raw constructor; symbol alignment of the length is the caller's obligation" % what)
                        continue
                    st = len_state(b, p, bv, N, bits_const)
                    chk.ob("I-align", what, st.ok, "constructs a Seq whose bit length is not a whole number of symbols: %s" % st.why,
                           b["span"], kind="unaligned-length", sample={"ctor": what, "length": st.why})
        if found:
            nctor += 1
        else:
            chk.cannot(which, what, "body builds a Seq literal that does not reach a return value", b["span"])
    chk.floor("%s constructors[%s]" % (which, cfg.name), nctor, 4)   # non-vacuity (11 counted; constructors may legitimately share a helper)
    # in-place mutators: every effect on self.bv in a &mut Seq method keeps the invariant
    nmut = 0
    for b in bio.bodies:
        if b["kind"] != "AssocFn" or not b["locals"] or len(b["locals"]) < 2:
            continue
        if not re.match(r"^&mut seq::Seq<", b["locals"][1]["ty"]):
            continue
        paths, _ = an.analyse(cfg, b)
        touched = False
        for p in paths:
            if p.end not in ("return", "continue"):
                continue
            for key, args, res, ev in p.calls:
                if not args or args[0] != ("bits", P(1)):
                    continue
                s = short(key)
                if s in READ_ONLY:
                    continue
                touched = True
                if which == "I-head":
                    chk.ob("I-head/mut", b["path"] + " " + s, s in PRESERVE_HEAD or s in KEEP_LEN or s in FORCE,
                           "in-place effect %s on self.bv has no head row in the bitvec model" % key, b["span"], kind="cannot-establish")
                else:
                    ok = s in KEEP_LEN or s == "clear"
                    why = s
                    if s == "extend_from_bitslice":
                        a = args[1]
                        ok = a[0] == "bits" or (a[0] == "bslice" and _sym_range(a) and (a[1][0] == "bits" or _view_bits(a)))
                        why = "extend by " + show(a)[:60]
                    elif s == "truncate":
                        ok = _is_sym_bits(args[1])
                        why = "truncate(%s)" % show(args[1])
                    elif s == "drain":
                        rb = nf.range_bounds(args[1])
                        ok = rb is not None and _is_sym_bits(rb[0]) and (rb[1] is None or _is_sym_bits(rb[1]))
                        why = "drain(%s)" % show(args[1])[:80]
                    chk.ob("I-align/mut", b["path"] + " " + s, ok, "in-place effect changes the length by a non-whole number of symbols: " + why, b["span"],
                           kind="unaligned-length")
            for lv, v in p.raw.stores:
                N = an.norm_of(p)
                if N(lv) == ("bits", P(1)):
                    touched = True
                    if which == "I-head":
                        st = head_state(b, p, v, N)
                        chk.ob("I-head/mut", b["path"] + " :=", st.ok, "replaces self.bv by a vector not starting at bit 0: " + st.why, b["span"], kind="unaligned-head")
                    else:
                        st = len_state(b, p, v, N, None)
                        chk.ob("I-align/mut", b["path"] + " :=", st.ok, "replaces self.bv by a vector of non-symbol length: " + st.why, b["span"], kind="unaligned-length")
        if touched:
            nmut += 1
    chk.floor("%s mutators[%s]" % (which, cfg.name), nmut, 4)   # non-vacuity (9 counted)


def _view_bits(a):
    v = a[1]
    return v[0] == "call" and "view_bits" in v[1] and a[2] == canon(an.c(0)) and a[3] == canon(BITS)
