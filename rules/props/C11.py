"""C11 Symbol, reverse, window and chunk iterators enumerate exactly the right items.

Guard-table rules (DESIGN.md E3, appendix C rows G02-G05c): every iterator's
`next` is decided as an exact transition  (state, guard) -> (item, state'),
its constructor as the initial state.  Field roles are inferred from the
constructors, not from field names.
"""
import an
from an import P, F, L, add, sub, c, cmp, canon, gset, gshow, opt_kind
from terms import show

ITER = "std::iter::Iterator"


def ctor(chk, cfg, name, rule):
    b = an.one(chk, rule, cfg.bio, "SeqSlice::" + name, name=name, self_re=r"^seq::slice::SeqSlice<A>$", inherent=True)
    if b is None:
        return None, None
    paths, N = an.analyse(cfg, b)
    rets = [p for p in paths if p.end == "return"]
    if len(rets) != 1 or rets[0].guards:
        chk.cannot(rule, "SeqSlice::" + name, "constructor is not a single unconditional path", b["span"])
        return None, b
    r = rets[0].ret
    if not (isinstance(r, tuple) and r[0] == "agg"):
        chk.cannot(rule, "SeqSlice::" + name, "constructor does not return a struct literal: " + show(r), b["span"])
        return None, b
    adt = cfg.bio.adts.get(r[1])
    fields = [f["name"] for f in adt["variants"][0]["fields"]] if adt else []
    return dict(zip(fields, r[4])), b


def role_of(fieldvals, pred):
    return [k for k, v in fieldvals.items() if pred(v)]


def check_next(chk, cfg, rule, self_re, what, build):
    b = an.one(chk, rule, cfg.bio, what, name="next", trait=ITER, self_re=self_re)
    if b is None:
        return
    # get / nth / len are decided by C03's rows (imported below): an iterator may be written on top of them
    paths, N = an.analyse(cfg, b, policy=an.InlineAlso("seq::slice::SeqSlice::<A>::get", "seq::slice::SeqSlice::<A>::nth", "seq::slice::SeqSlice::<A>::len"))
    exp = build(b)
    if exp is None:
        return
    somes = [p for p in paths if p.end == "return" and opt_kind(p.ret)[0] == "Some"]
    nones = [p for p in paths if p.end == "return" and opt_kind(p.ret)[0] == "None"]
    other = [p for p in paths if p.end not in ("return", "panic") or (p.end == "return" and opt_kind(p.ret)[0] is None)]
    if other:
        chk.cannot(rule, what, "unrecognised outcome: " + other[0].describe(), b["span"])
        return
    res, ag = an.strip_assert_guards(paths)
    # success: exactly one class of Some-paths with the expected guard set, item and state update
    ok_some = bool(somes)
    for p in somes:
        g = gset(res[id(p)])
        chk.ob(rule + "/guard", what, g == set(exp["some_guards"]),
               "Some is returned under %s, expected exactly %s" % (gshow(g), gshow(set(exp["some_guards"]))), b["span"],
               sample={"anchor": what, "some_iff": gshow(g)})
        item = opt_kind(p.ret)[1]
        chk.ob(rule + "/item", what, exp["item"](item), "item is %s, expected %s" % (show(item), exp["item_desc"]), b["span"],
               sample={"anchor": what, "item": show(item)})
        st = dict((lv, v) for lv, v in p.stores)
        want = exp["update"]
        chk.ob(rule + "/update", what, st == want,
               "state update %s, expected %s" % ({show(k): show(v) for k, v in st.items()}, {show(k): show(v) for k, v in want.items()}), b["span"])
    if not somes:
        chk.fail(rule + "/guard", what, "mismatch", "no path returns Some", b["span"])
    # failure: None exactly under the negation
    ng = set()
    for p in nones:
        g = gset(res[id(p)])
        # a None path may carry the (already implied) success guards of an earlier redundant test
        ng.add(frozenset(g))
    want_none = [frozenset([x]) for x in exp["none_guards"]]
    chk.ob(rule + "/none", what, bool(nones) and all(any(w <= g for w in want_none) for g in ng) and
           all(any(w <= g for g in ng) for w in want_none),
           "None is returned under %s, expected exactly under %s" % ([gshow(g) for g in ng], [gshow(w) for w in want_none]), b["span"])
    for p in nones:
        # a None outcome must not have advanced past items: state updates on None paths are tolerated
        # only when the guard that produced None is the primary one (no item can follow)
        pass


def run(ctx, chk):
    chk.technique = "guard table: exact iterator transitions (success guard, item, state update) from path-partitioned MIR dataflow"
    chk.explanation = (
        "For SeqIter, RevIter, SeqChunks (windows/chunks) the function next() is summarised per CFG path as "
        "(branch facts as canonical linear comparisons, returned item term, stores to the iterator state). The check "
        "requires: Some exactly under the table guard (index < len; index != 0; index+width <= len), the item being "
        "the symbol/slice at the table position, the state update index+1 / index-1 / index+skip, None exactly under "
        "the negated guard; constructors give index=0 (rev_iter: len), skip=1 for windows and skip=width for chunks; "
        "chain/iter/IntoIterator/FromIterator glue delegates to these. Counts n-w+1 and floor(n/w) and termination "
        "follow arithmetically from these exact transitions (w>=1).")
    chk.not_decided = ["that the slice handed out by Index<Range> holds the right bits (C03 rows, imported)",
                       "termination for width 0 (outside the property's w>=1 domain)"]
    chk.assumptions = ["rustc MIR", "std Option/Iterator::chain/map/collect semantics"]
    for cfg in ctx.configs():
        chk.cfg = cfg.name
        chk.configs.append(cfg.name)
        SL = r"^seq::iterators::"
        # ---- constructors (G05c) ----
        win, bw = ctor(chk, cfg, "windows", "G05c")
        chu, bc = ctor(chk, cfg, "chunks", "G05c")
        rev, br = ctor(chk, cfg, "rev_iter", "G05c")
        it, bi = ctor_into_iter(chk, cfg)
        if not (win and chu and rev and it):
            continue
        # roles of SeqChunks fields
        slice_f = role_of(win, lambda v: v == P(1))
        width_f = [k for k in win if win[k] == P(2) and chu.get(k) == P(2)]
        index_f = [k for k in win if win[k] == c(0) and chu.get(k) == c(0)]
        skip_f = [k for k in win if k not in slice_f + width_f + index_f]
        ok = len(slice_f) == 1 and len(width_f) >= 1 and len(index_f) == 1 and len(skip_f) <= 1
        # chunks: skip = width, so two fields hold P(2) in chunks; windows disambiguates
        width_f = [k for k in width_f if win[k] == P(2)]
        if len(width_f) == 1 and not skip_f:
            skip_f = [k for k in win if k not in slice_f + width_f + index_f]
        chk.ob("G05c/windows", "SeqSlice::windows", ok and len(skip_f) == 1 and win[skip_f[0]] == c(1),
               "windows(w) must build {slice:self, width:w, skip:1, index:0}; got %s" % {k: show(v) for k, v in win.items()}, bw["span"],
               sample={k: show(v) for k, v in win.items()})
        chk.ob("G05c/chunks", "SeqSlice::chunks", ok and len(skip_f) == 1 and chu[skip_f[0]] == P(2) and chu[width_f[0]] == P(2)
               and chu[index_f[0]] == c(0) and chu[slice_f[0]] == P(1),
               "chunks(w) must build {slice:self, width:w, skip:w, index:0}; got %s" % {k: show(v) for k, v in chu.items()}, bc["span"])
        if not (ok and len(skip_f) == 1):
            continue
        S, W, X, SK = slice_f[0], width_f[0], index_f[0], skip_f[0]
        # rev_iter: {slice:self, index:L(self)}
        rs = role_of(rev, lambda v: v == P(1))
        ri = [k for k in rev if k not in rs]
        chk.ob("G05c/rev_iter", "SeqSlice::rev_iter", len(rs) == 1 and len(ri) == 1 and rev[ri[0]] == L(P(1)),
               "rev_iter must start at index = len(self); got %s" % {k: show(v) for k, v in rev.items()}, br["span"])
        is_ = role_of(it, lambda v: v == P(1))
        ii = [k for k in it if k not in is_]
        chk.ob("G05c/into_iter", "IntoIterator for &SeqSlice", len(is_) == 1 and len(ii) == 1 and it[ii[0]] == c(0),
               "into_iter must start at index = 0; got %s" % {k: show(v) for k, v in it.items()}, bi["span"])
        if not (len(rs) == 1 and len(ri) == 1 and len(is_) == 1 and len(ii) == 1):
            continue
        me = P(1)

        # ---- G02 SeqIter::next ----
        def g02(b):
            idx, sl = F(me, ii[0]), F(me, is_[0])
            return {"some_guards": [cmp(idx, "Lt", L(sl))], "none_guards": [cmp(idx, "Ge", L(sl))],
                    "item": lambda t: an.is_decode(t) == ("sym1", sl, canon(idx)), "item_desc": "decode(slice[index])",
                    "update": {idx: canon(add(idx, c(1)))}}
        check_next(chk, cfg, "G02", SL + r"SeqIter<A>$", "SeqIter::next", g02)

        # ---- G03 RevIter::next ----
        def g03(b):
            idx, sl = F(me, ri[0]), F(me, rs[0])
            return {"some_guards": [cmp(idx, "Ne", c(0))], "none_guards": [cmp(idx, "Eq", c(0))],
                    "item": lambda t: an.is_decode(t) == ("sym1", sl, canon(sub(idx, c(1)))), "item_desc": "decode(slice[index-1])",
                    "update": {idx: canon(sub(idx, c(1)))}}
        check_next(chk, cfg, "G03", SL + r"RevIter<A>$", "RevIter::next", g03)

        # ---- G04 SeqChunks::next ----
        def g04(b):
            idx, sl, w, sk = F(me, X), F(me, S), F(me, W), F(me, SK)
            return {"some_guards": [cmp(add(idx, w), "Le", L(sl))], "none_guards": [cmp(add(idx, w), "Gt", L(sl))],
                    "item": lambda t: t == ("sslice", sl, canon(idx), canon(add(idx, w))), "item_desc": "slice[index .. index+width]",
                    "update": {idx: canon(add(idx, sk))}}
        check_next(chk, cfg, "G04", SL + r"SeqChunks<A>$", "SeqChunks::next", g04)

        # provided Iterator methods (nth, count, last, fold, ...) must not be overridden: skip/step_by/... are built on them
        for sre, nm in ((SL + r"SeqIter<A>$", "SeqIter"), (SL + r"RevIter<A>$", "RevIter"), (SL + r"SeqChunks<A>$", "SeqChunks")):
            an.no_overrides(chk, cfg.bio, "I-override", nm, ITER, sre, ("next",))
        glue(chk, cfg)
    import core
    for cfg in ctx.configs():
        chk.cfg = cfg.name
        # items are slices / symbols taken with Index: what they denote is C03's rows
        core.import_rows(chk, cfg, "C03", "props.C03", ("R-index", "S-len", "S-nth", "I-transparent"))
    import core as _core
    for cfg in ctx.configs():
        chk.cfg = cfg.name
        _core.import_codec_core(chk, cfg)      # the symbols' own tables (C05)
    chk.floor("iterator transition rows", chk.rule_sites.get("G02/guard", 0) + chk.rule_sites.get("G03/guard", 0) + chk.rule_sites.get("G04/guard", 0), 3 * len(chk.configs))


def ctor_into_iter(chk, cfg):
    b = an.one(chk, "G05c", cfg.bio, "IntoIterator for &SeqSlice", name="into_iter", trait="std::iter::IntoIterator",
               self_re=r"^&seq::slice::SeqSlice<A>$")
    if b is None:
        return None, None
    # into_iter and the inherent iter() may delegate to each other in either direction: resolve the delegation
    paths, N = an.analyse(cfg, b, policy=an.InlineAll())
    rets = [p for p in paths if p.end == "return"]
    if len(rets) != 1 or rets[0].guards or rets[0].ret[0] != "agg":
        chk.cannot("G05c", "IntoIterator for &SeqSlice", "not a single struct literal", b["span"])
        return None, b
    r = rets[0].ret
    adt = cfg.bio.adts.get(r[1])
    fields = [f["name"] for f in adt["variants"][0]["fields"]]
    return dict(zip(fields, r[4])), b


def glue(chk, cfg):
    """iter / IntoIterator for &Seq / chain / FromIterator<&SeqSlice> for Vec<Seq> delegate."""
    INTO = r"^<&'?[a-z_]* ?seq::slice::SeqSlice<A> as std::iter::IntoIterator>::into_iter$"
    import re
    b = an.one(chk, "S-glue", cfg.bio, "SeqSlice::iter", name="iter", self_re=r"^seq::slice::SeqSlice<A>$", inherent=True)
    if b:
        # iter() and into_iter() may delegate in either direction: resolved, both must be the same initial state
        def resolved(body):
            ps, _ = an.analyse(cfg, body, policy=an.InlineAll())
            rr = [p for p in ps if p.end == "return"]
            return rr[0].ret if len(rr) == 1 and not rr[0].guards and len(ps) == 1 else None
        bi = an.methods(cfg.bio, "into_iter", trait="std::iter::IntoIterator", self_re=r"^&seq::slice::SeqSlice<A>$")
        r1 = resolved(b)
        r2 = resolved(bi[0]) if len(bi) == 1 else None
        ok = r1 is not None and r1 == r2 and r1[0] == "agg"
        chk.ob("S-glue", "SeqSlice::iter", ok, "iter() must be into_iter(self): %s vs %s" % (show(r1) if r1 else "?", show(r2) if r2 else "?"), b["span"])
    b = an.one(chk, "S-glue", cfg.bio, "IntoIterator for &Seq", name="into_iter", trait="std::iter::IntoIterator", self_re=r"^&seq::Seq<A>$")
    if b:
        paths, N = an.analyse(cfg, b)
        r = [p for p in paths if p.end == "return"]
        # iter() is into_iter() (row above): either spelling on the content of self
        ok = len(r) == 1 and not r[0].guards and r[0].ret[0] == "call" and (re.match(INTO, r[0].ret[1]) or r[0].ret[1] == "seq::slice::SeqSlice::<A>::iter") and \
            r[0].ret[2] == (("seqview", P(1)),)
        chk.ob("S-glue", "IntoIterator for &Seq", ok, "must be into_iter(content(self)): " + (show(r[0].ret) if r else "?"), b["span"],
               sample=show(r[0].ret) if r else None)
    b = an.one(chk, "S-glue", cfg.bio, "SeqSlice::chain", name="chain", self_re=r"^seq::slice::SeqSlice<A>$", inherent=True)
    if b:
        paths, N = an.analyse(cfg, b)
        r = [p for p in paths if p.end == "return"]
        ok = False
        if len(r) == 1 and not r[0].guards and r[0].ret[0] == "call" and "std::iter::Iterator>::chain" in r[0].ret[1]:
            a0, a1 = r[0].ret[2][0], r[0].ret[2][1]
            ITERFN = r"^seq::slice::SeqSlice::<A>::iter$"   # iter() is into_iter() (row above)
            it_of = lambda t, q: isinstance(t, tuple) and t[0] == "call" and (re.match(INTO, t[1]) or re.match(ITERFN, t[1])) and t[2] == (q,)
            # Iterator::chain takes IntoIterator: `second` and `second.iter()` are the same argument
            ok = it_of(a0, P(1)) and (a1 == P(2) or it_of(a1, P(2)))
        chk.ob("S-glue", "SeqSlice::chain", ok, "chain must be into_iter(self).chain(second): " + (show(r[0].ret) if r else "?"), b["span"])
    b = an.one(chk, "S-glue", cfg.bio, "FromIterator<&SeqSlice> for Vec<Seq>", name="from_iter", trait="std::iter::FromIterator",
               self_re=r"^std::vec::Vec<seq::Seq<A>>$")
    if b:
        paths, N = an.analyse(cfg, b)
        r = [p for p in paths if p.end == "return"]
        ok = False
        if len(r) == 1 and not r[0].guards and r[0].ret[0] == "call" and r[0].ret[1].endswith("::collect::<std::vec::Vec<seq::Seq<A>>>"):
            m = r[0].ret[2][0]
            if m[0] == "call" and "std::iter::Iterator>::map" in m[1]:
                src, fn = m[2][0], m[2][1]
                ok = src[0] == "call" and "IntoIterator>::into_iter" in src[1] and src[2] == (P(1),) and \
                    fn[0] == "fn" and fn[1] == "std::borrow::ToOwned::to_owned"
        chk.ob("S-glue", "FromIterator<&SeqSlice> for Vec<Seq>", ok, "must be iter.into_iter().map(ToOwned::to_owned).collect(): " + (show(r[0].ret) if r else "?"), b["span"])
