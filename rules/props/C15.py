"""C15 Custom codon tables are faithful bidirectional maps."""
import re

import an
import xlate
from an import P, F, opt_kind, short
from terms import show


def run(ctx, chk):
    chk.technique = "order-insensitive inverse-map shape (per-key state machine) + variant flow of the lookups, from loop-summarising MIR dataflow"
    chk.explanation = (
        "CodonTable::from_map builds the inverse by one loop over the forward table whose body is the per-key state machine "
        "absent -> insert(amino, Some(codon.clone())), present -> insert(amino, None), keyed by the same amino in the test and both inserts: "
        "the final value depends only on the number of preimages (1 -> Some, >=2 -> None), hence not on HashMap iteration order. "
        "try_to_amino is table.get(codon) with None mapped to InvalidCodon(codon.into()); try_to_codon maps Some(Some(c)) -> Ok(c.clone()), "
        "Some(None) -> AmbiguousCodon(amino), None -> InvalidAmino(amino). Lookup by a borrowed slice relies on the Borrow/Hash/Eq "
        "contract of Seq and SeqSlice (C02 rows).")
    chk.not_decided = ["HashMap itself", "which of several codons is reported when the flag toggles (excluded by the shape)"]
    chk.assumptions = ["std HashMap::{get,insert,contains_key}", "C02 rows S-hash/S-eq/S-borrow (Seq and SeqSlice hash and compare by content)"]
    n = 0
    for cfg in ctx.configs(need_all_features=True):
        chk.cfg = cfg.name
        chk.configs.append(cfg.name)
        bio = cfg.bio
        b = an.one(chk, "S-inverse", bio, "CodonTable::from_map", name="from_map", self_re=r"^translation::CodonTable<A, B>$", inherent=True)
        if b:
            into_tbl = re.compile(r"^CONV<T -> std::collections::HashMap<seq::Seq<A>, B>>$")
            r = xlate.inverse_shape(chk, cfg, b, "S-inverse", "CodonTable::from_map", lambda s: an.is_call(s, into_tbl, (P(1),)))
            if r is not None:
                ret = r.ret
                adt = bio.adts.get("translation::CodonTable")
                names = [f["name"] for f in adt["variants"][0]["fields"]]
                ok = ret[0] == "agg" and ret[1] == "translation::CodonTable" and len(ret[4]) == 2
                if ok:
                    vals = dict(zip(names, ret[4]))
                    fwd = [k for k, v in vals.items() if an.is_call(v, into_tbl, (P(1),))]
                    inv = [k for k, v in vals.items() if v[0] == "loopvar"]
                    ok = len(fwd) == 1 and len(inv) == 1
                    roles = (fwd[0], inv[0]) if ok else None
                chk.ob("S-inverse/result", "CodonTable::from_map", ok, "must return {forward table, the map that was filled}: " + show(ret)[:160], b["span"])
                n += 1
            else:
                roles = None
        else:
            roles = None
        if roles is None:
            continue
        FWD, INV = roles
        b = an.one(chk, "S-variant-flow", bio, "CodonTable::try_to_amino", name="try_to_amino", trait="translation::PartialTranslationTable", self_re=r"^translation::CodonTable<A, B>$")
        if b:
            paths, _ = an.analyse(cfg, b)
            r = [p for p in paths if p.end == "return"]
            ok = False
            got = show(r[0].ret)[:200] if r else "?"
            if len(r) == 1 and not r[0].guards:
                t = r[0].ret
                g = clo = None
                if an.is_call(t, re.compile(r"Result::<&B, translation::TranslationError<A, B>>::copied$")):
                    o = t[2][0]
                    if an.is_call(o, re.compile(r"Option::<&B>::ok_or_else::<")):
                        g, clo = o[2][0], o[2][1]
                elif an.is_call(t, re.compile(r"Option::<B>::ok_or_else::<")) and an.is_call(t[2][0], re.compile(r"Option::<&B>::copied$")):
                    # the same lookup with `.copied()` applied before the error mapping
                    g, clo = t[2][0][2][0], t[2][1]
                if g is not None:
                    if True:
                        okg = an.is_call(g, re.compile(r"HashMap::<seq::Seq<A>, B>::get::<seq::slice::SeqSlice<A>>$"), (F(P(1), FWD), P(2)))
                        okc = False
                        if clo[0] == "closure" and clo[3] == (P(2),):
                            cb = [x for x in bio.bodies if x["path"] == clo[1]]
                            if len(cb) == 1:
                                cps, _ = an.analyse(cfg, cb[0], policy=an.NoInline())
                                cr = [q for q in cps if q.end == "return"]
                                if len(cr) == 1 and not cr[0].guards:
                                    e = cr[0].ret
                                    okc = e[0] == "agg" and e[3] == "InvalidCodon" and an.is_call(e[4][0], re.compile(r"^CONV<&seq::slice::SeqSlice<A> -> seq::Seq<(A|B)>>$"), (F(P(1), 0),))
                        ok = okg and okc
            chk.ob("S-variant-flow", "CodonTable::try_to_amino", ok, "must be table.get(codon).ok_or_else(|| InvalidCodon(codon.into())).copied(); got " + got, b["span"])
            n += 1
        b = an.one(chk, "S-variant-flow", bio, "CodonTable::try_to_codon", name="try_to_codon", trait="translation::PartialTranslationTable", self_re=r"^translation::CodonTable<A, B>$")
        if b:
            getter = re.compile(r"HashMap::<B, std::option::Option<seq::Seq<A>>>::get::<B>$")
            xlate.variant_flow(chk, cfg, b, "S-variant-flow", "CodonTable::try_to_codon",
                               lambda t: an.is_call(t, getter, (F(P(1), INV), P(2))),
                               {"Some(Some)": "Ok(clone)", "Some(None)": "Err(AmbiguousCodon)", "None": "Err(InvalidAmino)"})
            n += 1
    import core
    for cfg in ctx.configs(need_all_features=True):
        chk.cfg = cfg.name
        # HashMap<Seq,_>::get(&SeqSlice) needs Seq and SeqSlice to hash and compare by content, and Borrow to be the content view
        core.import_rows(chk, cfg, "C02", "props.C02", ("S-hash", "S-eq", "S-borrow"))
    chk.floor("codon table rows", n, 3 * max(1, len(chk.configs)))
