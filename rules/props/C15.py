"""C15 Custom codon tables are faithful bidirectional maps."""
import re

import an
import xlate
from an import P, F, opt_kind, short
from terms import show


def run(ctx, chk):
    chk.technique = "order-insensitive inverse-map shape (per-key state machine) + variant flow of the lookups, from loop-summarising MIR dataflow"
    chk.explanation = (
        "CodonTable::from_map builds the inverse by one loop over the forward table whose body is the per-key state machine "
        "absent -> insert(amino, Some(codon.clone())), present -> insert(amino, None), keyed by the same amino in the test and both inserts: "
        "the final value depends only on the number of preimages (1 -> Some, >=2 -> None), hence not on HashMap iteration order. "
        "try_to_amino is table.get(codon) with None mapped to InvalidCodon(codon.into()); try_to_codon maps Some(Some(c)) -> Ok(c.clone()), "
        "Some(None) -> AmbiguousCodon(amino), None -> InvalidAmino(amino). Lookup by a borrowed slice relies on the Borrow/Hash/Eq "
        "contract of Seq and SeqSlice (C02 rows).")
    chk.not_decided = ["HashMap itself", "which of several codons is reported when the flag toggles (excluded by the shape)"]
    chk.assumptions = ["std HashMap::{get,insert,contains_key}", "C02 rows S-hash/S-eq/S-borrow (Seq and SeqSlice hash and compare by content)"]
    n = 0
    for cfg in ctx.configs(need_all_features=True):
        chk.cfg = cfg.name
        chk.configs.append(cfg.name)
        bio = cfg.bio
        b = an.one(chk, "S-inverse", bio, "CodonTable::from_map", name="from_map", self_re=r"^translation::CodonTable<A, B>$", inherent=True)
        if b:
            into_tbl = re.compile(r"^CONV<T -> std::collections::HashMap<seq::Seq<A>, B>>$")
            r = xlate.inverse_shape(chk, cfg, b, "S-inverse", "CodonTable::from_map", lambda s: an.is_call(s, into_tbl, (P(1),)))
            if r is not None:
                ret = r.ret
                adt = bio.adts.get("translation::CodonTable")
                names = [f["name"] for f in adt["variants"][0]["fields"]]
                ok = ret[0] == "agg" and ret[1] == "translation::CodonTable" and len(ret[4]) == 2
                if ok:
                    vals = dict(zip(names, ret[4]))
                    fwd = [k for k, v in vals.items() if an.is_call(v, into_tbl, (P(1),))]
                    inv = [k for k, v in vals.items() if v[0] == "loopvar"]
                    ok = len(fwd) == 1 and len(inv) == 1
                    roles = (fwd[0], inv[0]) if ok else None
                chk.ob("S-inverse/result", "CodonTable::from_map", ok, "must return {forward table, the map that was filled}: " + show(ret)[:160], b["span"])
                n += 1
            else:
                roles = None
        else:
            roles = None
        if roles is None:
            continue
        FWD, INV = roles
        b = an.one(chk, "S-variant-flow", bio, "CodonTable::try_to_amino", name="try_to_amino", trait="translation::PartialTranslationTable", self_re=r"^translation::CodonTable<A, B>$")
        if b:
            # keyed by the outcome of the lookup (however it is written: ok_or_else().copied(), copied().ok_or_else(), match):
            #   table.get(codon) = Some(a) -> Ok(*a) ;  None -> Err(InvalidCodon(codon.into()))
            paths, _ = an.analyse(cfg, b, policy=an.ForkPolicy())
            r = [p for p in paths if p.end == "return"]
            bad = [p for p in paths if p.end not in ("return", "panic")]
            getter = re.compile(r"HashMap::<seq::Seq<A>, B>::get::<seq::slice::SeqSlice<A>>$")
            seen = {}
            got = "; ".join(p.describe()[:120] for p in r)
            for p in r:
                sw = [g for g in p.guards if g[0] == "sw" and isinstance(g[1], tuple) and g[1][0] == "discr" and an.is_call(g[1][1], getter, (F(P(1), FWD), P(2)))]
                if len(sw) != 1 or len(p.guards) != 1:
                    seen["?"] = p
                    continue
                g = sw[0]
                some = (g[2] == "==" and g[3] == 1) or (g[2] == "notin" and 1 not in g[3])
                seen["Some" if some else "None"] = (p, g[1][1])
            ok = not bad and set(seen) == {"Some", "None"}
            if ok:
                ps, T = seen["Some"]
                pay = F(("downcast", T, 1, "Some"), "0")
                k, v = opt_kind(ps.ret)
                oks = k == "Ok" and v in (("deref", pay), pay)
                pn, _ = seen["None"]
                k2, e = opt_kind(pn.ret)
                okn = k2 == "Err" and isinstance(e, tuple) and e[0] == "agg" and e[3] == "InvalidCodon" and \
                    an.is_call(e[4][0], re.compile(r"^CONV<&seq::slice::SeqSlice<A> -> seq::Seq<(A|B)>>$"), (P(2),))
                ok = oks and okn
            chk.ob("S-variant-flow", "CodonTable::try_to_amino", ok, "must be: table.get(codon) Some(a) -> Ok(*a), None -> Err(InvalidCodon(codon.into())); got " + got, b["span"])
            n += 1
        b = an.one(chk, "S-variant-flow", bio, "CodonTable::try_to_codon", name="try_to_codon", trait="translation::PartialTranslationTable", self_re=r"^translation::CodonTable<A, B>$")
        if b:
            getter = re.compile(r"HashMap::<B, std::option::Option<seq::Seq<A>>>::get::<B>$")
            xlate.variant_flow(chk, cfg, b, "S-variant-flow", "CodonTable::try_to_codon",
                               lambda t: an.is_call(t, getter, (F(P(1), INV), P(2))),
                               {"Some(Some)": "Ok(clone)", "Some(None)": "Err(AmbiguousCodon)", "None": "Err(InvalidAmino)"})
            n += 1
    import core
    for cfg in ctx.configs(need_all_features=True):
        chk.cfg = cfg.name
        # HashMap<Seq,_>::get(&SeqSlice) needs Seq and SeqSlice to hash and compare by content, and Borrow to be the content view
        core.import_rows(chk, cfg, "C02", "props.C02", ("S-hash", "S-eq", "S-borrow"))
    # "reports ambiguity / an invalid amino acid / an invalid codon": what each error variant prints is part of the report
    import json, os
    for cfg in ctx.configs(need_all_features=True):
        chk.cfg = cfg.name
        db = an.one(chk, "S-errtext", cfg.bio, "Display for TranslationError", name="fmt", trait="std::fmt::Display", self_re=r"^translation::TranslationError<A, B>$")
        if not db:
            continue
        tab, why = an.display_table(cfg, db, "translation::TranslationError")
        if os.environ.get("BSQ_FREEZE_TEXTS") and tab:
            cur = an.frozen_texts()
            cur["translation::TranslationError"] = tab
            json.dump(cur, open(an.TEXT_FILE, "w"), indent=1, sort_keys=True)
        want = an.frozen_texts().get("translation::TranslationError")
        if tab is None:
            chk.cannot("S-errtext", "Display for TranslationError", why, db["span"])
        elif not want:
            chk.cannot("S-errtext", "Display for TranslationError", "no frozen message table (oracle/error_texts.json)", db["span"])
        else:
            for v in sorted(want):
                chk.ob("S-errtext", "TranslationError::" + v, tab.get(v) == want[v],
                       "the message printed for %s is %r with %s; the pinned message is %r with %s" % (v, (tab.get(v) or [None])[0], (tab.get(v) or [None, None])[1], want[v][0], want[v][1]),
                       db["span"], sample={"variant": v, "text": want[v][0]})
    chk.floor("codon table rows", n, 3 * max(1, len(chk.configs)))
