"""C13 Standard DNA->amino translation is the standard genetic code for every codon."""
import re

import an
import nf
from an import P, F, L, c, cmp, canon, gset, gshow
from ctx import oracle
from props import C05
from terms import show


def run(ctx, chk):
    chk.technique = "table rule: Amino codes+alts vs NCBI table 1 under the documented packing (64 codons, exhaustive) + guard row for to_amino"
    chk.explanation = (
        "The 21 discriminants and 43 alternative codes of Amino, extracted from the derived decoders' MIR, are compared with NCBI translation "
        "table 1 for all 64 codons under the packing code(b0) | code(b1)<<2 | code(b2)<<4 (Dna codes from MIR). Standard::to_amino asserts "
        "len == 3 before decoding and returns unsafe_from_bits(load_le::<u8>(content(codon))), which is total on 0..63. Independence of the "
        "codon's position follows from the content of a slice being offset-free (C03 rows) and load_le reading that content (C04 I-endian).")
    chk.not_decided = ["the numeric value of load_le on a codon straddling two words (bitvec)"]
    chk.assumptions = ["oracle/ncbi_table1.json transcribes NCBI transl_table=1", "C03 S-byte row: u8::from(&SeqSlice) = load_le::<u8>(content)"]
    orc = oracle("alphabets.json")
    n = 0
    for cfg in ctx.configs(need_all_features=True):
        chk.cfg = cfg.name
        chk.configs.append(cfg.name)
        cs = cfg.codecs
        tables = {}
        for short in ("amino::Amino", "dna::Dna"):
            cdc = cs.get(short)
            if cdc is None:
                chk.cannot("T-ncbi", short, "codec not found")
                continue
            r = C05.check_codec(chk, cfg, cdc, orc, ctx.decls.get(cdc.ty))
            if r:
                tables[cdc.ty] = r
        n += C05.amino_ncbi(chk, cfg, cs, orc, tables, rule="T-ncbi")
        # ---- G19 ----
        b = an.one(chk, "G19", cfg.bio, "Standard::to_amino", name="to_amino", trait="translation::TranslationTable", self_re=r"^translation::standard::Standard$")
        if b:
            paths, _ = an.analyse(cfg, b)
            rets = [p for p in paths if p.end == "return"]
            pans = [p for p in paths if p.end == "panic"]
            want = cmp(L(P(2)), "Eq", c(3))
            # the length may be asserted in bits (`codon.bs.len() == 3 * Dna::BITS`): same guard for aligned content (nf.align_cmp)
            dna_cd = cfg.codecs.get("dna::Dna")
            def gl(gs):
                return an.gset_aligned(gs, dna_cd.bits) if dna_cd else gset(gs)
            chk.ob("G19", "Standard::to_amino", len(rets) == 1 and gl(rets[0].guards) == {want} and
                   any(gl(p.guards) == {(want[0], nf.NEG[want[1]])} for p in pans),
                   "decodes under %s, panics under %s; expected assert len == 3 dominating the decode" % (
                       [gshow(gset(p.guards)) for p in rets], [gshow(gset(p.guards)) for p in pans]), b["span"])
            for p in rets:
                t = p.ret
                ok = an.is_call(t, "<codec::amino::Amino as codec::Codec>::unsafe_from_bits") and \
                    an.is_call(t[2][0], re.compile(r"^CONV<&seq::slice::SeqSlice<(codec::dna::Dna|A)> -> u8>$"), (P(2),))
                chk.ob("G19/value", "Standard::to_amino", ok, "returns %s; expected Amino::unsafe_from_bits(u8::from(codon))" % show(t), b["span"], sample=show(t))
        # the byte read is load_le::<u8>(content)  (imported row)
        b = an.one(chk, "S-byte", cfg.bio, "u8::from(&SeqSlice)", name="from", trait="std::convert::From", self_re=r"^u8$", targ_re=r"^&seq::slice::SeqSlice<A>$")
        if b:
            paths, _ = an.analyse(cfg, b)
            res, ag = an.strip_assert_guards(paths)
            r = [p for p in paths if p.end == "return"]
            ok = len(r) == 1 and not res[id(r[0])] and an.is_call(r[0].ret, re.compile(r"BitField>::load_le::<u8>$"), (("bits", P(1)),))
            chk.ob("S-byte", "u8::from(&SeqSlice)", ok, "u8::from(slice) = %s, expected load_le::<u8>(content)" % (show(r[0].ret) if r else "?"), b["span"])
    import core
    for cfg in ctx.configs(need_all_features=True):
        chk.cfg = cfg.name
        # "translating by windows or by chunks of three gives, position by position, the translation of the triplet":
        # the window/chunk iterator rows (C11) and the collection of the results into a Seq<Amino> (C06: one push per item) are imported
        core.import_rows(chk, cfg, "C11", "props.C11", ("G04", "G05c", "I-override"))
        core.import_rows(chk, cfg, "C06", "props.C06", ("S-extend", "R08"))
        core.import_rows(chk, cfg, "C03", "props.C03", ("R-index", "S-len"))
    chk.floor("codons checked", n, 64 * max(1, len(chk.configs)))
    chk.coverage_exhaustive = True
