"""C16 Compile-time literals equal runtime parsing; invalid literals do not compile."""
import random
import re

import an
import nf
import witness
import xlate
from an import P, F, short
from ctx import oracle
from props import C08
from terms import show

# macro alphabets: oracle rows (documentation of dna!/iupac!; X is the documented synonym of '-')
MACRO_ALPHABET = {"dna_seq": ("codec::dna::Dna", "ACGT", {}), "iupac_seq": ("codec::iupac::Iupac", "ACGTRYSWKMBDHVN-X", {"X": "-"})}


class _Soft:
    """collects "cannot establish from MIR" reasons: the caller then falls back to the compile-time witness table"""

    def __init__(self, chk):
        self.chk = chk
        self.reasons = []

    def cannot(self, rule, anchor, why, where=None):
        self.reasons.append("%s: %s" % (anchor, why))

    def __getattr__(self, name):
        return getattr(self.chk, name)


def table_fn(cfg, macro, fn):
    """the function holding the macro's per-character table: by its frozen name, else the crate function called from the
    proc-macro entry point whose Result feeds gen_seqarray (call graph, not name)"""
    b = [x for x in cfg.derive.bodies if x["path"] == "seqarray::" + fn]
    if len(b) == 1:
        return b[0]
    e = [x for x in cfg.derive.bodies if x["path"] == macro and x["kind"] == "Fn"]
    if len(e) != 1:
        return None
    cands = set()
    try:
        paths, _ = an.analyse(cfg, e[0], policy=an.NoInline(), eng=cfg.deng)
    except Exception:
        return None
    local = {x["path"]: x for x in cfg.derive.bodies if x["kind"] in ("Fn", "AssocFn")}
    for p in paths:
        for key, args, res, ev in p.calls:
            if key in local and re.search(r"Result<\(usize, std::vec::Vec<u8>\), syn::Error>", local[key].get("ret_ty") or ""):
                cands.add(key)
    return local[next(iter(cands))] if len(cands) == 1 else None


def macro_table(chk, cfg, fn, macro=None):
    """char -> bit list, read from the proc-macro's MIR (loop summarised per character)"""
    b = table_fn(cfg, macro or fn.split("_")[0], fn)
    if b is None:
        chk.cannot("T-macro", fn, "macro table function not found in bio_seq_derive")
        return None
    paths, _ = an.analyse(cfg, b, policy=an.SeqPolicy(), eng=cfg.deng)   # private helpers (a per-character table function, ...) are inlined
    table = {}
    errs = [p for p in paths if p.end == "return" and p.ret[0] == "agg" and p.ret[3] == "Err"]
    oks = [p for p in paths if p.end == "return" and p.ret[0] == "agg" and p.ret[3] == "Ok"]
    conts = [p for p in paths if p.end == "continue"]
    bad = [p for p in paths if p not in errs + oks + conts and p.end != "panic"]
    if bad or len(oks) != 1 or not conts:
        chk.cannot("T-macro", fn, "loop shape not recognised (%d ok, %d per-char, %d other)" % (len(oks), len(conts), len(bad)), b["span"])
        return None
    src = xlate.iter_source(oks[0])
    oksrc = src is not None and an.is_call(src, re.compile(r"^core::str::<impl str>::char_indices$")) and "syn::LitStr::value(arg1)" in show(src)
    chk.ob("T-macro/source", fn, oksrc, "the table loop must run over the literal's characters in order (char_indices of its value): " + (show(src)[:120] if src else "?"), b["span"])
    ok_count = True
    for p in conts:
        item, nxt = xlate.loop_item(p)
        ch = F(item, 1)
        key = [g for g in p.guards if g[0] == "sw" and g[1] == ch and g[2] == "=="]
        ext = [x for x in p.calls if re.search(r"Vec<u8> as std::iter::Extend<u8>>::extend::<|std::vec::Vec::<u8>::extend", x[0]) or short(x[0]) == "extend"]
        if len(key) != 1 or len(ext) != 1:
            chk.cannot("T-macro", fn, "per-character path not keyed by one character / one extend: " + p.describe()[:160], b["span"])
            return None
        arr = ext[0][1][1]
        if arr[0] != "array" or not all(x[0] == "int" for x in arr[1]):
            chk.cannot("T-macro", fn, "bits for %r are not a constant array: %s" % (chr(key[0][3]), show(arr)), b["span"])
            return None
        table[chr(key[0][3])] = [x[1] for x in arr[1]]
        # the symbol counter advances by exactly one per character
        env = p.raw.env
        incs = [l for l, v in env.items() if isinstance(v, tuple) and v[0] == "bin" and v[1] == "Add" and v[2][0] == "loopvar" and v[2][2] == l and v[3] == ("int", 1, "usize")]
        ok_count = ok_count and len(incs) == 1
    chk.ob("T-macro/count", fn, ok_count, "every accepted character must add exactly one to the symbol count", b["span"])
    # every other character reaches Err
    okerr = len(errs) == 1 and any(g[0] == "sw" and g[2] == "notin" and set(g[3]) == set(ord(k) for k in table) for g in errs[0].guards)
    chk.ob("T-macro/reject", fn, okerr, "characters outside the table must make the macro function return Err", b["span"])
    # result order: (count, bits)
    r = oks[0].ret[4][0]
    # the pair (symbol count, bit list): a tuple or a two-field struct, each component the loop's own accumulator
    comps = r[1] if r[0] == "tuple" else (r[4] if r[0] == "agg" else ())
    chk.ob("T-macro/result", fn, len(comps) == 2 and all(x[0] == "loopvar" for x in comps) and comps[0] != comps[1], "must return (symbol count, bit list)", b["span"])
    return table


def entry_flow(chk, cfg, macro, tablefn, ident):
    """proc-macro entry: Err -> compile error; Ok((n, bits)) -> gen_seqarray(codec ident, name, n, bits)"""
    b = [x for x in cfg.derive.bodies if x["path"] == macro and x["kind"] == "Fn"]
    if len(b) != 1:
        chk.cannot("S-macro-entry", macro + "!", "proc-macro entry not found")
        return
    b = b[0]
    paths, _ = an.analyse(cfg, b, policy=an.InlineExcept("seqarray::" + tablefn, "seqarray::gen_seqarray"), eng=cfg.deng)
    tcall = re.compile(r"^seqarray::%s$" % tablefn)
    good = True
    seen_gen = seen_err = False
    for p in paths:
        if p.end != "return":
            continue
        tc = [x for x in p.calls if tcall.match(x[0])]
        if not tc:
            # parse error / non-ascii pre-check: must be a compile error
            good = good and ("to_compile_error" in show(p.ret) or "into_compile_error" in show(p.ret))
            continue
        res = tc[0][2]
        sw = [g for g in p.guards if g[0] == "sw" and g[1] == ("discr", res)]
        is_err = any((g[2] == "==" and g[3] == 1) or (g[2] == "notin" and 0 in g[3]) for g in sw)
        if is_err:
            seen_err = True
            good = good and an.is_call(p.ret[2][0] if p.ret[0] == "call" and p.ret[2] else (), re.compile(r"^syn::Error::(to|into)_compile_error$"), (F(("downcast", res, 1, "Err"), "0"),))
        else:
            g = [x for x in p.calls if x[0] == "seqarray::gen_seqarray"]
            if len(g) != 1:
                good = False
                continue
            seen_gen = True
            a = g[0][1]
            okv = F(("downcast", res, 0, "Ok"), "0")
            def comp_of(t):
                while isinstance(t, tuple) and t[0] == "call" and len(t[2]) == 1:
                    t = t[2][0]          # deref / as_slice of the bit list
                return t[2] if isinstance(t, tuple) and t[0] == "F" and t[1] == okv else None
            okid = an.is_call(a[0], re.compile(r"^proc_macro2::Ident::new$")) and a[0][2][0] == ("str", ident)
            if len(a) == 4:
                # both components of the encoder's result, each exactly once
                okres = comp_of(a[2]) is not None and comp_of(a[3]) is not None and comp_of(a[2]) != comp_of(a[3])
            else:
                okres = len(a) == 3 and a[2] == okv      # the result passed on whole
            good = good and okid and okres
            good = good and show(p.ret).count("seqarray::gen_seqarray") == 1
    chk.ob("S-macro-entry", macro + "!", good and seen_gen and seen_err,
           "the macro must expand Ok((n, bits)) through gen_seqarray(%s, name, n, bits) and turn every Err into a compile error" % ident, b["span"])


def pack(codes, bits):
    v = 0
    for i, c in enumerate(codes):
        v |= c << (i * bits)
    nbits = len(codes) * bits
    w = (nbits + 63) // 64
    return list(v.to_bytes(8 * w, "little")) if w else [], w


def gen_literals(tier, seed):
    rnd = random.Random(seed)
    dna_lens = [0, 1, 2, 3, 4, 15, 16, 17, 31, 32, 33, 63, 64, 65, 127, 128, 129, 200]
    iu_lens = [0, 1, 2, 3, 15, 16, 17, 31, 32, 33, 63, 64, 65, 100]
    if tier == "thorough":
        dna_lens += [rnd.randrange(1, 260) for _ in range(40)] + list(range(5, 15)) + [191, 192, 193, 255, 256, 257]
        iu_lens += [rnd.randrange(1, 140) for _ in range(40)] + list(range(4, 15)) + [47, 48, 49, 127, 128, 129]
    lits = []
    for n in dna_lens:
        for variant in range(2 if tier == "quick" else 3):
            if variant == 0:
                s = "".join("ACGT"[(i + n) % 4] for i in range(n))
            elif variant == 1:
                s = "".join("TGCA"[(i * 7 + 3) % 4] for i in range(n))
            else:
                s = "".join(rnd.choice("ACGT") for _ in range(n))
            lits.append(("dna", s))
    alpha = "ACGTRYSWKMBDHVN-X"
    for n in iu_lens:
        for variant in range(2 if tier == "quick" else 3):
            if variant == 0:
                s = "".join(alpha[(i + n) % len(alpha)] for i in range(n))
            elif variant == 1:
                s = "".join(alpha[(i * 5 + 2) % len(alpha)] for i in range(n))
            else:
                s = "".join(rnd.choice(alpha) for _ in range(n))
            lits.append(("iupac", s))
    if tier == "thorough":
        # sparse literals: long runs of the zero-coded symbol with a few others (a generator that packs or skips whole words is
        # only exercised by inputs whose words repeat or vanish)
        for kind, zero, others in (("dna", "A", "CGT"), ("iupac", "-", "ACGTRYSWKMBDHVN")):
            for _ in range(40):
                n = rnd.randrange(1, 300)
                lits.append((kind, "".join(rnd.choice(others) if rnd.random() < 0.04 else zero for _ in range(n))))
    # word-structured literals: an all-zero storage word (32 x 'A' / 16 x '-') in every word position of 1..4-word literals, next to
    # non-zero words, and an all-ones word (32 x 'T' / 16 x 'N'); with and without a partial last word
    for kind, per, zero, one, fill in (("dna", 32, "A", "T", "CGTA"), ("iupac", 16, "-", "N", "CRYK")):
        for nwords in (1, 2, 3, 4):
            for special in (zero, one):
                for z in range(nwords):
                    for tail in (0, 1, per // 2):
                        words = [(special * per) if w == z else "".join(fill[(i + w) % len(fill)] for i in range(per)) for w in range(nwords)]
                        lits.append((kind, "".join(words) + fill[:1] * tail))
        lits.append((kind, zero * (2 * per) + fill[0]))
        lits.append((kind, fill[0] + zero * (3 * per)))
    seen = set()
    out = []
    for k, s in lits:
        if (k, s) not in seen:
            seen.add((k, s))
            out.append((k, s))
    return out


INVALID = [("dna", "aCGT", "lower case first"), ("dna", "ACgT", "lower case middle"), ("dna", "ACGt", "lower case last"),
           ("dna", "NCGT", "N"), ("dna", "ACNT", "N middle"), ("dna", "ACGU", "U last"), ("dna", "XCGT", "X"), ("dna", "AC5T", "digit"),
           ("dna", "AC GT", "space"), ("dna", "ACGT\\n", "newline last"), ("dna", "\\tACGT", "tab first"), ("dna", "ACGé", "multi-byte last"),
           ("dna", "éCGT", "multi-byte first"), ("dna", "AC-T", "gap in dna"),
           ("iupac", "aCGT", "lower case"), ("iupac", "ACZT", "Z"), ("iupac", "ACG5", "digit last"), ("iupac", "ACéT", "multi-byte middle"), ("iupac", "AC.T", "dot"),
           ("iupac", " ACGT", "space first"),
           ("kmer", "ACGN", "N in kmer"), ("kmer", "acgt", "lower-case kmer"), ("kmer", "ACéT", "multi-byte kmer")]
VALID_TWIN = {"dna": "ACGT", "iupac": "ACGT", "kmer": "ACGT"}


def invalid_literals(tier):
    inv = list(INVALID) + [("iupac", "ACGU", "U in iupac"), ("iupac", "ACGTu", "lower-case u"), ("dna", "ACGT\\r\\nACGT", "CR LF in the middle")]
    if tier == "thorough":
        # every printable ASCII character outside the macro's alphabet, in the middle of an otherwise valid literal
        for kind, alpha in (("dna", "ACGT"), ("iupac", "ACGTRYSWKMBDHVN-X")):
            for o in range(0x20, 0x7f):
                ch = chr(o)
                if ch in alpha or ch in '"\\':
                    continue
                lit = "AC%sGT" % ch
                if (kind, lit) not in [(k, l) for k, l, _ in inv]:
                    inv.append((kind, lit, "character 0x%02x" % o))
    return inv


def _esc(ch):
    return {'"': '\\"', "\\": "\\\\", "\n": "\\n", "\t": "\\t", "\r": "\\r"}.get(ch, ch)


def witness_table(chk, kind, cd):
    """char -> bit list of dna!/iupac! decided by the compiler: for every printable ASCII character (and tab, LF, CR) the literal
    "AC<ch>GT" either fails to compile (rejected) or compiles to a static whose third symbol gives the character's code."""
    chars = [chr(o) for o in range(0x20, 0x7f)] + ["\t", "\n", "\r"]
    ty = "Dna" if kind == "dna" else "Iupac"
    out = ["//! generated witness harness (compile_fail / no_run only)\n"]
    for i, ch in enumerate(chars):
        out.append("/// ```compile_fail\n/// use bio_seq::prelude::*;\n/// let _s: &'static SeqSlice<%s> = %s!(\"AC%sGT\");\n/// ```\npub fn c_%03d() {}\n" % (ty, kind, _esc(ch), i))
    out.append("/// ```no_run\n/// use bio_seq::prelude::*;\n/// let _s: &'static SeqSlice<%s> = %s!(\"ACAGT\");\n/// ```\npub fn twin() {}\n" % (ty, kind))
    res, raw, rc = witness.doctests("bsq_witness_tab_" + kind, "\n".join(out))
    if res.get("twin") != "ok" or any(("c_%03d" % i) not in res for i in range(len(chars))):
        chk.cannot("T-macro", kind + "!", "witness harness for the per-character table did not run: " + raw[-200:])
        return None
    accepted = [ch for i, ch in enumerate(chars) if res["c_%03d" % i] != "ok"]
    src = ["#![allow(dead_code)]\nuse bio_seq::prelude::*;\n"]
    for i, ch in enumerate(accepted):
        src.append('pub fn w_%03d() -> &\'static SeqSlice<%s> { %s!("AC%sGT") }' % (i, ty, kind, _esc(ch)))
    ok, crate, diags, err = witness.build("bsq_witness_tabv_" + kind, {"src/lib.rs": "\n".join(src) + "\n"})
    if not ok:
        chk.cannot("T-macro", kind + "!", "witness crate for accepted characters does not build: " + str([d["message"] for d in diags][:2] or err[-200:]))
        return None
    table = {}
    bits = cd.bits
    for i, ch in enumerate(accepted):
        st = [e for p, es in crate.evals.items() for e in es if e.get("kind") == "static" and p.startswith("w_%03d::" % i) and (e.get("adt") or "").endswith("SeqArray")]
        if len(st) != 1:
            chk.cannot("T-macro", kind + "!", "no evaluated static for accepted character %r" % ch)
            return None
        args = st[0].get("adt_args") or []
        v = int.from_bytes(bytes(st[0]["bytes"]), "little")
        if len(args) != 3 or int(args[1]) != 5:
            chk.fail("T-macro", "%s! %r" % (kind, ch), "mismatch", "literal \"AC%sGT\" has %s symbols instead of 5" % (ch, args[1] if len(args) > 1 else "?"))
            continue
        code = (v >> (2 * bits)) & ((1 << bits) - 1)
        table[ch] = [(code >> k) & 1 for k in range(bits)]
    return table


def doctest_harness(tier="quick"):
    """compile_fail doctests paired with a compiling no_run twin that differs in the literal only"""
    out = ["//! generated witness harness (never executed: compile_fail / no_run only)\n"]
    names = []
    twins_done = set()
    for i, (kind, lit, why) in enumerate(invalid_literals(tier)):
        for twin in (False, True):
            if twin and i >= len(INVALID) and kind in twins_done:
                continue     # one compiling twin per macro is enough for the sweep
            if twin:
                twins_done.add(kind)
            nm = "%s_%03d_%s" % (kind, i, "twin" if twin else "bad")
            text = VALID_TWIN[kind] if twin else lit
            attr = "no_run" if twin else "compile_fail"
            body = {"dna": 'let _s: &\'static SeqSlice<Dna> = dna!("%s");',
                    "iupac": 'let _s: &\'static SeqSlice<Iupac> = iupac!("%s");',
                    "kmer": 'let _k = kmer!("%s");'}[kind] % text
            out.append("/// %s (%s)\n/// ```%s\n/// use bio_seq::prelude::*;\n/// %s\n/// ```\npub fn %s() {}\n" % (why, "twin" if twin else "must not compile", attr, body, nm))
            names.append((nm, twin, kind, lit, why))
    return "\n".join(out), names


def run(ctx, chk):
    chk.technique = "macro/codec table agreement from the proc-macro's MIR + rustc-evaluated statics of generated literals vs the runtime packing + compile_fail witnesses with compiling twins"
    chk.explanation = (
        "(1) The character tables of dna!/iupac! are read from bio_seq_derive's MIR (per-character loop summaries): for every character of the "
        "runtime alphabet the macro's bit list, read Lsb0, equals to_bits(try_from_ascii(c)) and has BITS entries; the accepted set equals the "
        "macro's documented alphabet exactly; every other character reaches Err, and every Err (as well as a parse failure or the non-ASCII "
        "pre-check) flows to a compile error; Ok((n,bits)) flows to gen_seqarray with the codec ident. (2) A generated witness crate holds one "
        "literal per function (lengths 0..200 incl. 31/32/33, 15/16/17, 63..65, 127..129; all symbols); it is compiled under the extractor and "
        "the rustc-evaluated static of every literal (type arguments codec, N, W and the words) must equal the runtime packing "
        "sum(code_i * 2^(i*BITS)) computed from the codec tables - nothing is executed. kmer! witnesses pin K = literal length by type. "
        "(3) compile_fail doctests for invalid literals (lower case, N/U/X in dna!, digits, whitespace, multi-byte UTF-8 at first/middle/last "
        "position, in dna!, iupac!, kmer!) each paired with a compiling no_run twin differing only in the literal. (4) kmer! expands to "
        "unsafe_from_seqslice(dna!(..)), whose row (packs the whole content) is imported from C08.")
    chk.not_decided = ["equality of Hash/Display values as such - they follow from C01/C02 once content and length agree"]
    chk.assumptions = ["rustc const evaluation of the generated statics", "C04 packing rows for the runtime side"]
    # ---- (1) tables, on the all-features configuration and the default one ----
    tables = {}
    for cfg in ctx.configs():
        chk.cfg = cfg.name
        chk.configs.append(cfg.name)
        cs = cfg.codecs
        for fn, (cty, alphabet, syn) in MACRO_ALPHABET.items():
            soft = _Soft(chk)
            t = macro_table(soft, cfg, fn)
            if t is None:
                # the table could not be read from the macro's MIR in this shape: decide it from compile-time witnesses instead
                key = (fn, "witness")
                if key not in tables:
                    tables[key] = witness_table(chk, fn.split("_")[0], cs.by_ty.get(cty))
                t = tables[key]
                if t is None:
                    for r in soft.reasons[:3]:
                        chk.cannot("T-macro", fn, r)
                    continue
                chk.note("%s: per-character table not readable from MIR (%s); established from compile-time witnesses: every printable ASCII "
                         "character in one position of an otherwise valid literal (accepted -> evaluated static, rejected -> compile_fail)" % (fn, "; ".join(soft.reasons)[:200]))
            tables[fn] = t
            cd = cs.by_ty.get(cty)
            tfa, tb = cd.table_u8("try_from_ascii"), cd.sym_fn("to_bits")
            chk.ob("T-macro/alphabet", fn, set(t) == set(alphabet), "macro accepts %r, its documented alphabet is %r" % ("".join(sorted(t)), alphabet), kind="alphabet-mismatch")
            for ch, bits in sorted(t.items()):
                rc = syn.get(ch, ch)
                r = tfa[ord(rc)]
                if r[0] != "some":
                    chk.ob("T-macro", "%s %r" % (fn, ch), ch not in alphabet, "macro accepts %r which the runtime parser refuses" % ch)
                    continue
                code = tb[r[1]][1]
                want = [(code >> i) & 1 for i in range(cd.bits)]
                chk.ob("T-macro", "%s %r" % (fn, ch), bits == want, "macro bits for %r are %s; runtime code %s is %s (Lsb0)" % (ch, bits, bin(code), want),
                       sample={"char": ch, "bits": bits})
        entry_flow(chk, cfg, "dna", "dna_seq", "Dna")
        entry_flow(chk, cfg, "iupac", "iupac_seq", "Iupac")
        # (4) kmer! glue: unsafe_from_seqslice packs the whole content
        b = an.one(chk, "via=C08/R22", cfg.bio, "Kmer::unsafe_from_seqslice", name="unsafe_from_seqslice", self_re=r"^kmer::Kmer<A, K, S>$", inherent=True)
        if b:
            paths, _ = an.analyse(cfg, b)
            res, ag = an.strip_assert_guards(paths)
            r = [p for p in paths if p.end == "return"]
            chk.ob("via=C08/R22", "Kmer::unsafe_from_seqslice", len(r) == 1 and not res[id(r[0])] and C08.is_pack(r[0].ret) == ("bits", P(1)),
                   "kmer! relies on unsafe_from_seqslice packing the whole content of the literal: " + (show(r[0].ret)[:120] if r else "?"), b["span"])
        # kmer!(lit, u64 | u128) packs through the storage type's from_bitslice / to_bitarray: their rows (little-endian word
        # decomposition, load_le) are C04's, imported here because a literal k-mer is not a const-evaluated static
        import core
        core.import_rows(chk, cfg, "C04", "props.C04", ("S-kmer-int", "I-endian"))
    # ---- (2) evaluated statics of generated literals ----
    cfg = ctx.cfg("def-dbg")
    chk.cfg = "witness"
    cs = cfg.codecs
    lits = gen_literals(ctx.tier, chk.seed)
    src = ["#![allow(dead_code)]\nuse bio_seq::prelude::*;\n"]
    for i, (kind, s) in enumerate(lits):
        ty = "Dna" if kind == "dna" else "Iupac"
        src.append('pub fn lit_%04d() -> &\'static SeqSlice<%s> { %s!("%s") }' % (i, ty, kind, s))
    kmers = [("ACGT", ""), ("ACGTACGT", ""), ("A" * 31 + "C", ""), ("ACGT" * 8 + "T", ", u128"), ("TGCA" * 16, ", u128"), ("ACGTAC", ", u64")]
    for i, (s, st) in enumerate(kmers):
        sty = st.replace(", ", "") or "usize"
        src.append('pub fn kmer_%02d() -> Kmer<Dna, %d, %s> { kmer!("%s"%s) }' % (i, len(s), sty, s, st))
    ok, crate, diags, err = witness.build("bsq_witness_lits", {"src/lib.rs": "\n".join(src) + "\n"})
    if not ok:
        chk.fail("W-literals", "witness crate", "cannot-establish", "generated valid literals do not compile: %s" % ([d["message"] for d in diags][:3] or err[-400:]))
    else:
        nst = 0
        for i, (kind, s) in enumerate(lits):
            cty = "codec::dna::Dna" if kind == "dna" else "codec::iupac::Iupac"
            cd = cs.by_ty[cty]
            tfa, tb = cd.table_u8("try_from_ascii"), cd.sym_fn("to_bits")
            codes = []
            for ch in s:
                r = tfa[ord({"X": "-"}.get(ch, ch) if kind == "iupac" else ch)]
                codes.append(tb[r[1]][1])
            want_bytes, w = pack(codes, cd.bits)
            st = [e for p, es in crate.evals.items() for e in es if e.get("kind") == "static" and p.startswith("lit_%04d::" % i) and (e.get("adt") or "").endswith("SeqArray")]
            what = '%s!("%s")' % (kind, s if len(s) <= 24 else s[:10] + ".." + s[-6:] + "[%d]" % len(s))
            if len(st) != 1:
                chk.fail("W-literals", what, "cannot-establish", "no evaluated static found for this literal")
                continue
            e = st[0]
            args = e.get("adt_args") or []
            okt = (e.get("adt") or "").endswith("SeqArray") and len(args) == 3 and args[0] in ("bio_seq::" + cty, "bio_seq::prelude::" + cty.split("::")[-1]) and int(args[1]) == len(s) and int(args[2]) == w
            okb = list(e["bytes"]) == want_bytes
            chk.ob("W-literals", what, okt and okb,
                   "static is SeqArray<%s> with words %s; runtime parsing of the same text packs to N=%d, W=%d, words %s" % (
                       ", ".join(args), _words(e["bytes"]), len(s), w, _words(want_bytes)), kind="literal-mismatch",
                   sample={"literal": what, "N": len(s), "W": w} if nst < 3 else None)
            nst += 1
        chk.floor("literal statics", nst, len(lits))
        # kmer! witnesses compiled: K pinned by the return type
        for i, (s, stg) in enumerate(kmers):
            bs = [b for b in crate.bodies if b["path"] == "kmer_%02d" % i]
            chk.ob("W-kmer", 'kmer!("%s"%s)' % (s[:12], stg), len(bs) == 1, "kmer! witness did not type-check with K = %d" % len(s))
    # ---- (3) compile_fail witnesses ----
    lib, names = doctest_harness(ctx.tier)
    res, out, rc = witness.doctests("bsq_witness_bad", lib)
    for nm, twin, kind, lit, why in names:
        r = res.get(nm)
        if twin:
            chk.ob("W-twin", "%s! twin of %r" % (kind, lit), r == "ok", "the compiling twin of the witness does not build (harness broken?): %s" % r, kind="cannot-establish")
        else:
            chk.ob("W-reject", "%s! %s" % (kind, why), r == "ok", "literal %r (%s) was accepted by %s! instead of being a compile-time error" % (lit, why, kind), kind="invalid-literal-accepted",
                   sample={"macro": kind, "literal": lit})
    chk.floor("compile_fail witnesses", len([1 for nm, *_ in names if nm in res]), len(names))


def _words(b):
    b = bytes(b)
    return [hex(int.from_bytes(b[i:i + 8], "little")) for i in range(0, len(b), 8)][:4]
