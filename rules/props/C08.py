"""C08 k-mer iteration and construction reproduce the sequence's windows exactly.

Guard rows G05, G05c, G07, G08 and extent rows R16, R17, R22 (appendices C, D).
"""
import re

import an
import kstorage
import nf
from an import P, F, L, BITS, K, add, sub, mul, c, cmp, canon, gset, gshow, opt_kind, short
from terms import show

FROM_BITSLICE = re.compile(r"^<S as kmer::sealed::KmerStorage>::from_bitslice$|^<(usize|u64|u128) as kmer::sealed::KmerStorage>::from_bitslice$|^<usize as kmer::sealed::KmerStorage>::from_bitslice$")


UNSAFE_FROM = re.compile(r"^kmer::Kmer::<A, K(, \w+)?>::unsafe_from_seqslice$")


def is_pack(t):
    """Kmer { _p, bs: S::from_bitslice(X) } -> X ; Kmer::unsafe_from_seqslice(s) -> bits(s) (row R22)"""
    if isinstance(t, tuple) and t[0] == "call" and UNSAFE_FROM.match(t[1]) and len(t[2]) == 1:
        x = t[2][0]
        return ("bits", x[1] if x[0] == "seqview" else x)
    if isinstance(t, tuple) and t[0] == "agg" and t[1] == "kmer::Kmer" and len(t[4]) == 2:
        f = t[4][1]
        if isinstance(f, tuple) and f[0] == "call" and FROM_BITSLICE.match(f[1]):
            return f[2][0]
    return None


def err_payload(t, variant):
    """Err(ParseBioError::<variant>(a, b)) -> (a, b)"""
    k, v = opt_kind(t)
    if k == "Err" and isinstance(v, tuple) and v[0] == "agg" and v[1] == "error::ParseBioError" and v[3] == variant:
        return tuple(canon(x) for x in v[4])
    return None


def run(ctx, chk):
    chk.technique = "guard table for KmerIter/try_from/from_str + bit-extent rows for Pack/Deref/Display, from path-partitioned MIR dataflow"
    chk.explanation = (
        "kmers() starts at index 0 with len = len(self); KmerIter::next is Some(Pack(slice[index, index+K))) exactly when index+K <= len and "
        "then advances by one - the same transition row as windows(K) (C11 G04 with width=K, skip=1), hence max(0,n-K+1) k-mers equal to the "
        "windows. Kmer::try_from(&SeqSlice) is Ok exactly when len = K (payload MismatchedLength(K, len) otherwise) and packs the whole "
        "content; TryFrom<Seq> and from_str delegate (from_str: length test first, then the strict parser with ?, then try_from). Display "
        "decodes exact BITS-wide chunks of storage[0, K*BITS) through unsafe_from_bits(load_le) and to_char; Deref exposes exactly "
        "view_bits::<Lsb0>(storage)[0, K*BITS); From<Kmer> for Seq collects the k-mer's symbols in order.")
    chk.not_decided = ["numeric value produced by load_le / from_bitslice on word-straddling regions (bitvec)",
                       "kmer! macro expansion (macro_rules; its two components dna! and unsafe_from_seqslice are decided here and in C16)"]
    chk.assumptions = ["bitvec model rows (load_le, chunks, view_bits)", "C03 rows for SeqSlice Index", "C01 strict parser normal form for Seq::from_str"]
    rows = 0
    for cfg in ctx.configs():
        chk.cfg = cfg.name
        chk.configs.append(cfg.name)
        bio = cfg.bio
        # Display/Pack rely on the storage rows (imported from C04: to_bitarray / from_bitslice)
        kstorage.storage_rows(chk, cfg)
        # ---- G05c kmers() ----
        b = an.one(chk, "G05c", bio, "SeqSlice::kmers", name="kmers", self_re=r"^seq::slice::SeqSlice<A>$", inherent=True)
        roles = None
        if b:
            paths, _ = an.analyse(cfg, b)
            r = [p for p in paths if p.end == "return"]
            if len(r) == 1 and not r[0].guards and r[0].ret[0] == "agg":
                adt = bio.adts.get(r[0].ret[1])
                vals = dict(zip([f["name"] for f in adt["variants"][0]["fields"]], r[0].ret[4]))
                sl = [k for k, v in vals.items() if v == P(1)]
                ix = [k for k, v in vals.items() if v == c(0)]
                ln = [k for k, v in vals.items() if v == L(P(1))]
                ok = len(sl) == 1 and len(ix) == 1 and len(ln) == 1
                chk.ob("G05c", "SeqSlice::kmers", ok, "kmers() must build {slice:self, index:0, len:len(self)}; got %s" % {k: show(v) for k, v in vals.items()}, b["span"],
                       sample={k: show(v) for k, v in vals.items()})
                if ok:
                    roles = (sl[0], ix[0], ln[0])
            else:
                chk.cannot("G05c", "SeqSlice::kmers", "not a single struct literal", b["span"])
        # ---- G05 KmerIter::next ----
        b = an.one(chk, "G05", bio, "KmerIter::next", name="next", trait="std::iter::Iterator", self_re=r"^kmer::KmerIter<A, K>$")
        if b and roles:
            S_, X_, N_ = roles
            me = P(1)
            idx, sl, ln = F(me, X_), F(me, S_), F(me, N_)
            paths, _ = an.analyse(cfg, b)
            res, ag = an.strip_assert_guards(paths)
            somes = [p for p in paths if p.end == "return" and opt_kind(p.ret)[0] == "Some"]
            nones = [p for p in paths if p.end == "return" and opt_kind(p.ret)[0] == "None"]
            other = [p for p in paths if p.end == "return" and opt_kind(p.ret)[0] is None or p.end not in ("return", "panic")]
            if other:
                chk.cannot("G05", "KmerIter::next", "unrecognised outcome " + other[0].describe()[:200], b["span"])
            want = cmp(add(idx, K), "Le", ln)
            chk.ob("G05/guard", "KmerIter::next", len(somes) == 1 and gset(res[id(somes[0])]) == {want},
                   "Some under %s, expected exactly {index + K <= len}" % [gshow(gset(res[id(p)])) for p in somes], b["span"])
            chk.ob("G05/none", "KmerIter::next", len(nones) == 1 and gset(res[id(nones[0])]) == {(want[0], nf.NEG[want[1]])},
                   "None under %s, expected exactly {index + K > len}" % [gshow(gset(res[id(p)])) for p in nones], b["span"])
            for p in somes:
                x = is_pack(opt_kind(p.ret)[1])
                chk.ob("G05/item", "KmerIter::next", x == ("bits", ("sslice", sl, canon(idx), canon(add(idx, K)))),
                       "item packs %s, expected bits(slice[index .. index+K])" % (show(x) if x else show(opt_kind(p.ret)[1])), b["span"],
                       sample=show(x) if x else None)
                chk.ob("G05/update", "KmerIter::next", dict(p.stores) == {idx: canon(add(idx, c(1)))},
                       "state update %s, expected index := index + 1" % {show(k): show(v) for k, v in p.stores}, b["span"])
            rows += 1
        an.no_overrides(chk, bio, "I-override", "KmerIter", "std::iter::Iterator", r"^kmer::KmerIter<A, K>$", ("next",))
        # ---- G07 try_from(&SeqSlice) ----
        b = an.one(chk, "G07", bio, "Kmer::try_from(&SeqSlice)", name="try_from", trait="std::convert::TryFrom", self_re=r"^kmer::Kmer<A, K, S>$",
                   targ_re=r"^&seq::slice::SeqSlice<A>$")
        if b:
            paths, _ = an.analyse(cfg, b)
            res, ag = an.strip_assert_guards(paths)
            oks = [p for p in paths if p.end == "return" and opt_kind(p.ret)[0] == "Ok"]
            errs = [p for p in paths if p.end == "return" and opt_kind(p.ret)[0] == "Err"]
            chk.ob("G07/guard", "Kmer::try_from(&SeqSlice)", len(oks) == 1 and gset(res[id(oks[0])]) == {cmp(L(P(1)), "Eq", K)},
                   "Ok under %s, expected exactly {len == K}" % [gshow(gset(res[id(p)])) for p in oks], b["span"])
            chk.ob("G07/err", "Kmer::try_from(&SeqSlice)", len(errs) == 1 and gset(res[id(errs[0])]) == {cmp(L(P(1)), "Ne", K)} and
                   err_payload(errs[0].ret, "MismatchedLength") == (canon(K), canon(L(P(1)))),
                   "Err under %s with %s, expected MismatchedLength(K, len) exactly when len != K" % (
                       [gshow(gset(res[id(p)])) for p in errs], [show(p.ret) for p in errs]), b["span"])
            for p in oks:
                x = is_pack(opt_kind(p.ret)[1])
                okx = x in (("bits", P(1)), ("bits", ("sslice", P(1), canon(c(0)), canon(K))))
                chk.ob("R22", "Kmer::try_from(&SeqSlice)", okx, "packs %s, expected the whole content seq[0..K]" % (show(x) if x else show(p.ret)), b["span"])
            rows += 1
        b = an.one(chk, "G07", bio, "Kmer::try_from(Seq)", name="try_from", trait="std::convert::TryFrom", self_re=r"^kmer::Kmer<A, K>$", targ_re=r"^seq::Seq<A>$")
        if b:
            paths, _ = an.analyse(cfg, b)
            r = [p for p in paths if p.end == "return"]
            ok = len(r) == 1 and not r[0].guards and an.is_call(r[0].ret, re.compile(r"^<kmer::Kmer<A, K> as std::convert::TryFrom<&seq::slice::SeqSlice<A>>>::try_from$"), (("seqview", P(1)),))
            chk.ob("G07/delegate", "Kmer::try_from(Seq)", ok, "must delegate to try_from(content(seq)): " + (show(r[0].ret) if r else "?"), b["span"])
        # ---- unsafe_from_seqslice ----
        b = an.one(chk, "R22", bio, "Kmer::unsafe_from_seqslice", name="unsafe_from_seqslice", self_re=r"^kmer::Kmer<A, K, S>$", inherent=True)
        if b:
            paths, _ = an.analyse(cfg, b)
            res, ag = an.strip_assert_guards(paths)
            r = [p for p in paths if p.end == "return"]
            ok = len(r) == 1 and not res[id(r[0])] and is_pack(r[0].ret) == ("bits", P(1))
            chk.ob("R22", "Kmer::unsafe_from_seqslice", ok, "must pack the whole content of the slice: " + (show(r[0].ret) if r else "?"), b["span"])
        # ---- G08 from_str ----
        b = an.one(chk, "G08", bio, "Kmer::from_str", name="from_str", trait="std::str::FromStr", self_re=r"^kmer::Kmer<A, K, S>$")
        if b:
            check_from_str(chk, cfg, b)
            rows += 1
        # ---- R16 Deref ----
        b = an.one(chk, "R16", bio, "Kmer::deref", name="deref", trait="std::ops::Deref", self_re=r"^kmer::Kmer<A, K>$")
        if b:
            paths, _ = an.analyse(cfg, b)
            r = [p for p in paths if p.end == "return"]
            ok = False
            if len(r) == 1 and not r[0].guards and r[0].ret[0] == "seqof":
                x = r[0].ret[1]
                ok = x[0] == "bslice" and x[2] == canon(c(0)) and x[3] == canon(mul(K, BITS)) and \
                    an.is_call(x[1], re.compile(r"^<usize as bitvec::view::BitView>::view_bits::<bitvec::order::Lsb0>$"), (F(P(1), "bs"),))
            chk.ob("R16", "Kmer::deref", ok, "deref = %s, expected view_bits::<Lsb0>(storage)[0 .. K*BITS]" % (show(r[0].ret) if r else "?"), b["span"],
                   sample=show(r[0].ret) if r else None)
            rows += 1
        b = an.one(chk, "R16", bio, "Kmer::as_ref", name="as_ref", trait="std::convert::AsRef", self_re=r"^kmer::Kmer<A, K>$")
        if b:
            paths, _ = an.analyse(cfg, b)
            r = [p for p in paths if p.end == "return"]
            chk.ob("R16", "Kmer::as_ref", len(r) == 1 and not r[0].guards and r[0].ret == ("seqview", P(1)), "as_ref must be the deref view", b["span"])
        # ---- R17 Display ----
        b = an.one(chk, "R17", bio, "Display for Kmer", name="fmt", trait="std::fmt::Display", self_re=r"^kmer::Kmer<A, K, S>$")
        if b:
            check_display(chk, cfg, b)
            rows += 1
        # ---- From<Kmer> for Seq ----
        b = an.one(chk, "S-conv", bio, "From<Kmer> for Seq", name="from", trait="std::convert::From", self_re=r"^seq::Seq<A>$", targ_re=r"^kmer::Kmer<A, K>$")
        if b:
            paths, _ = an.analyse(cfg, b)
            r = [p for p in paths if p.end == "return"]
            ok = False
            got = ""
            if len(r) == 1 and not r[0].guards:
                base, ids = an.peel_posts(r[0].raw.ret)
                Np = an.norm_of(r[0])
                nb = Np(base)
                evs = [x for x in r[0].calls if x[3].idx in ids]
                got = "%s then %s" % (show(nb), [(short(x[0]), [show(a) for a in x[1][1:]]) for x in evs])
                ok = an.is_call(nb, "seq::Seq::<A>::with_capacity") and len(evs) == 1 and evs[0][0].startswith("seq::Seq::<A>::extend") and \
                    an.is_call(evs[0][1][1], re.compile(r"^seq::slice::SeqSlice::<A>::iter$|into_iter$"), (("seqview", P(1)),))
            chk.ob("S-conv", "From<Kmer> for Seq", ok, "must collect the k-mer's symbols in order (with_capacity; extend(kmer.iter())): " + got, b["span"])
            rows += 1
    import core
    for cfg in ctx.configs():
        chk.cfg = cfg.name
        # "identical to the overlapping-windows iterator of width K": the other side of the equation is C11's windows rows;
        # what a handed-out slice denotes is C03's
        core.import_rows(chk, cfg, "C11", "props.C11", ("G04", "G05c/windows", "I-override"))
        core.import_rows(chk, cfg, "C03", "props.C03", ("R-index", "S-len"))
    import core as _core
    for cfg in ctx.configs():
        chk.cfg = cfg.name
        _core.import_codec_core(chk, cfg)      # the symbols' own tables (C05)
    chk.floor("k-mer rows over all configurations", rows, 6 * len(chk.configs))


def check_from_str(chk, cfg, b):
    paths, _ = an.analyse(cfg, b)
    what = "Kmer::from_str"
    slen = ("call", "core::str::<impl str>::len", (P(1),), None)
    rets = [p for p in paths if p.end == "return"]
    errs = [p for p in rets if opt_kind(p.ret)[0] == "Err" and err_payload(p.ret, "MismatchedLength") is not None]
    others = [p for p in rets if p not in errs]
    # length test first: Err(MismatchedLength(K, s.len())) exactly when s.len() != K
    ok = len(errs) == 1 and gset(errs[0].guards) == {cmp(slen, "Ne", K)} and not errs[0].others() and \
        err_payload(errs[0].ret, "MismatchedLength") == (canon(K), canon(slen))
    chk.ob("G08/len", what, ok, "length refusal: %s; expected Err(MismatchedLength(K, s.len())) exactly when s.len() != K" % [p.describe()[:200] for p in errs], b["span"])
    # all other paths are under s.len() == K and depend on the strict parser's result R only: its error is returned as it is
    # (`?`, `and_then`, a `match`), its sequence goes to try_from
    parse = re.compile(r"^<seq::Seq<A> as std::str::FromStr>::from_str$|^<seq::Seq<A> as std::convert::TryFrom<&str>>::try_from$")
    R = None
    for p in others:
        for g in p.guards:
            if g[0] == "sw" and isinstance(g[1], tuple) and g[1][0] == "discr":
                subj = g[1][1]
                if isinstance(subj, tuple) and subj[0] == "call" and short(subj[1]) == "branch" and len(subj[2]) == 1:
                    subj = subj[2][0]
                if an.is_call(subj, parse, (P(1),)):
                    R = subj[:3] + (None,)
    good = R is not None
    desc = []
    seen_ok = seen_res = False
    BR = ("call", "<std::result::Result<seq::Seq<A>, error::ParseBioError> as std::ops::Try>::branch", (R,), None) if R else None

    def strip(t):
        return t[:3] + (None,) if isinstance(t, tuple) and t[0] == "call" and len(t) > 3 else t

    def same(t, u):
        return strip(t) == strip(u)
    for p in others:
        desc.append(p.describe()[:240])
        if not good:
            break
        if cmp(slen, "Eq", K) not in gset(p.guards):
            good = False
        # which state of R is this path under?
        state = None
        for g in p.guards:
            if g[0] == "sw" and isinstance(g[1], tuple) and g[1][0] == "discr" and g[2] == "==":
                subj = g[1][1]
                if same(subj, R):
                    state = "ok" if g[3] == 0 else "err"
                elif isinstance(subj, tuple) and subj[0] == "call" and short(subj[1]) == "branch" and same(subj[2][0], R):
                    state = "ok" if g[3] == 0 else "err"
        t = p.ret
        if state == "err":
            # the parser's own error: from_residual(Break(..)) of `?`, or Err(e) rebuilt from R's Err payload
            BRt = ("call", "<std::result::Result<seq::Seq<A>, error::ParseBioError> as std::ops::Try>::branch", (R,), None)
            via_q = an.is_call(t, re.compile(r"::from_residual$")) and len(t[2]) == 1 and isinstance(t[2][0], tuple) and t[2][0][0] == "F" and \
                t[2][0][1][:1] == ("downcast",) and same(t[2][0][1][1], BRt) and t[2][0][1][3] == "Break"
            k, pay = opt_kind(t)
            rebuilt = k == "Err" and isinstance(pay, tuple) and pay[0] == "F" and pay[1][:1] == ("downcast",) and same(pay[1][1], R) and pay[1][3] == "Err"
            good = good and (via_q or rebuilt)
            seen_res = True
        elif state == "ok" and an.is_call(t, re.compile(r"^<kmer::Kmer<A, K, S> as std::convert::TryFrom<&seq::slice::SeqSlice<A>>>::try_from$")):
            a = t[2][0]
            # argument: content of the parsed sequence (the Ok / Continue payload of R)
            BRt = ("call", "<std::result::Result<seq::Seq<A>, error::ParseBioError> as std::ops::Try>::branch", (R,), None)
            inner = a[1] if a[0] == "seqview" else None
            good = good and isinstance(inner, tuple) and inner[0] == "F" and inner[1][:1] == ("downcast",) and \
                ((same(inner[1][1], R) and inner[1][3] == "Ok") or (same(inner[1][1], BRt) and inner[1][3] == "Continue"))
            seen_ok = True
        else:
            good = False
    chk.ob("G08/parse", what, good and seen_ok and seen_res and len(others) == 2,
           "after the length test from_str must be the strict parse of s - its error returned unchanged, its sequence handed to Kmer::try_from(content): %s" % desc, b["span"])


def check_display(chk, cfg, b):
    """Display decodes exact BITS-wide chunks of to_bitarray(storage)[0, K*BITS) in order.  Accepted shapes (the engine presents
    `for` and `for_each` alike as a loop):  loop over chunks { s.push(to_char(unsafe_from_bits(load_le::<u8>(chunk)))) } then write s;
    or  chunks.map(|chunk| to_char(unsafe_from_bits(load_le::<u8>(chunk)))).collect::<String>()  then write it."""
    import pipes
    import xlate
    what = "Display for Kmer"
    paths, _ = an.analyse(cfg, b)
    r = [p for p in paths if p.end == "return"]
    conts = [p for p in paths if p.end == "continue"]
    bad = [p for p in paths if p.end not in ("return", "continue", "panic")]
    if len(r) != 1 or bad:
        chk.cannot("R17", what, "not a single exit path", b["span"])
        return
    p = r[0]
    ch = [x for x in p.calls if short(x[0]) == "chunks"]
    ok = False
    got = ""

    def decode_of(v, item):
        # to_char(unsafe_from_bits(load_le::<u8>(item)))
        if an.is_call(v, "<A as codec::Codec>::to_char"):
            d = v[2][0]
            if an.is_call(d, "<A as codec::Codec>::unsafe_from_bits"):
                return an.is_call(d[2][0], re.compile(r"BitField>::load_le::<u8>$"), (item,))
        return False
    if len(ch) == 1:
        bits, w = ch[0][1][0], ch[0][1][1]
        got = "chunks(%s, %s)" % (show(bits), show(w))
        okb = bits[0] == "bslice" and bits[2] == canon(c(0)) and bits[3] == canon(mul(K, BITS)) and \
            an.is_call(bits[1], re.compile(r"KmerStorage>::to_bitarray$"), (F(P(1), "bs"),))
        okw = canon(w) == canon(BITS)
        okc = False
        if len(conts) == 1:
            src = xlate.iter_source(p)
            item, _nx = xlate.loop_item(conts[0])
            pre = [x[3].idx for x in p.calls]
            body = [x for x in conts[0].calls if x[3].idx not in pre and short(x[0]) != "next"]
            push = [x for x in body if x[0] == "std::string::String::push"]
            oksrc = src == ch[0][2] or an.is_call(src, re.compile(r"IntoIterator>::into_iter$"), (ch[0][2],))
            okc = oksrc and item is not None and len(push) == 1 and decode_of(push[0][1][1], item) and \
                all(x is push[0] or short(x[0]) in ("load_le", "unsafe_from_bits", "to_char") for x in body)
            got += "; loop body " + str([short(x[0]) for x in body])
        elif not conts:
            col = [x for x in p.calls if pipes.COLLECT.search(x[0])]
            if len(col) == 1 and pipes.COLLECT.search(col[0][0]).group(1) == "std::string::String":
                mp = col[0][1][0]
                if mp[0] == "call" and pipes.MAP.search(mp[1]) and mp[2][0] == ch[0][2]:
                    cr = pipes.closure_ret(cfg, mp[2][1])
                    okc = cr is not None and decode_of(cr, ("ARG",))
                    got += "; map closure " + (show(cr)[:100] if cr else "?")
        ok = okb and okw and okc
        # the string that is written is the one that was filled
        wf = [x for x in p.calls if short(x[0]) in ("write_fmt", "write_str")]
        ok = ok and len(wf) == 1
    chk.ob("R17", what, ok, "Display must decode exact BITS-wide chunks of to_bitarray(storage)[0 .. K*BITS] via to_char(unsafe_from_bits(load_le::<u8>(chunk))), in order, into the string it writes; got " + got, b["span"],
           sample=got)
