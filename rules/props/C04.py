"""C04 Documented little-endian packing, integer conversion, raw image.

I-endian / I-order crate-wide; guard rows G06 (usize::try_from) and G09
(from_raw); S-kmer-int rows; I-head typestate over every Seq constructor.
"""
import re

import an
import kstorage
import nf
import seqctor
from an import P, F, L, BITS, K, add, sub, mul, c, cmp, canon, gset, gshow, opt_kind, short
from terms import show, I


def run(ctx, chk):
    chk.technique = "endianness/bit-order scan of resolved callees + guard rows + head-alignment typestate over all Seq constructors"
    chk.explanation = (
        "Symbol i lives at bits [i*BITS,(i+1)*BITS): push appends view_bits::<Lsb0>(to_bits)[0..BITS) (C06 R08, imported) and every integer "
        "read of sequence bits in the crate is load_le, every write store/store_le, every bit view Lsb0 (I-endian, I-order: all call sites "
        "enumerated). usize::try_from(&SeqSlice) is Ok(load_le(content)) exactly when bits <= 64 and otherwise "
        "Err(SequenceTooLong(len, 64/BITS)) - never a truncation. KmerStorage::{to_bitarray,from_bitslice} are the little-endian word "
        "decomposition / load_le for usize, u64, u128; From<usize|u64> for Kmer and usize::from(&Kmer) are the identity on storage. "
        "from_raw(n, words) is None exactly when n > bits/BITS (equivalently n*BITS > bits) and otherwise the image truncated to n*BITS; "
        "into_raw is as_raw_slice of the vector, which exposes the documented layout only if the vector starts at bit 0 of word 0: "
        "I-head checks that every Seq constructor and every in-place effect yields a head-aligned vector (bitvec head column).")
    chk.not_decided = ["the numeric value bitvec's load_le/store produce on regions straddling words", "contents of dead bits beyond the length in the last word"]
    chk.assumptions = ["bitvec 1.1.1 model rows: from_bitslice/to_bitvec/clone copy the argument's head, with_capacity/new/from_slice/from_vec are aligned, "
                       "extend/truncate/drain keep the receiver's head, force_align aligns", "native-endian `store` equals store_le on the analysed little-endian target"]
    bv = ctx.bitvec_version()
    chk.cfg = None
    chk.ob("model-pin", "bitvec", bv is not None and bv.startswith("1.1."),
           "Cargo.lock pins bitvec %s; the head/extent model rows this check relies on were read from bitvec 1.1.x and are not established for another version" % bv,
           "Cargo.lock", kind="cannot-establish", sample={"bitvec": bv})
    for cfg in ctx.configs():
        chk.cfg = cfg.name
        chk.configs.append(cfg.name)
        bio = cfg.bio
        loads, stores, views = kstorage.endian_order(chk, cfg)
        # non-vacuity floors for the crate-wide scans (11 / 6 / 2 sites were counted by hand; sharing a helper between loops
        # legitimately lowers the count, so the floor only asserts that the matcher still matches)
        chk.floor("load sites[%s]" % cfg.name, loads, 4)
        chk.floor("store sites[%s]" % cfg.name, stores, 2)
        chk.floor("view_bits sites[%s]" % cfg.name, views, 1)
        n = kstorage.storage_rows(chk, cfg)
        chk.floor("storage rows[%s]" % cfg.name, n, 6)
        # ---- G06 ----
        b = an.one(chk, "G06", bio, "usize::try_from(&SeqSlice)", name="try_from", trait="std::convert::TryFrom", self_re=r"^usize$", targ_re=r"^&seq::slice::SeqSlice<A>$")
        if b:
            paths, _ = an.analyse(cfg, b)
            res, ag = an.strip_assert_guards(paths)
            oks = [p for p in paths if p.end == "return" and opt_kind(p.ret)[0] == "Ok"]
            errs = [p for p in paths if p.end == "return" and opt_kind(p.ret)[0] == "Err"]
            bl = ("bitlen", ("bits", P(1)))
            want = cmp(bl, "Le", c(64))
            # equivalently written on symbols: len*BITS <= 64
            chk.ob("G06/guard", "usize::try_from(&SeqSlice)", len(oks) == 1 and gset(res[id(oks[0])]) == {want},
                   "Ok under %s, expected exactly {bits <= 64}" % [gshow(gset(res[id(p)])) for p in oks], b["span"])
            for p in oks:
                v = opt_kind(p.ret)[1]
                chk.ob("G06/value", "usize::try_from(&SeqSlice)", an.is_call(v, re.compile(r"BitField>::load_le::<usize>$"), (("bits", P(1)),)),
                       "Ok(%s), expected load_le::<usize>(content)" % show(v), b["span"], sample=show(v))
            okerr = len(errs) == 1 and gset(res[id(errs[0])]) == {(want[0], nf.NEG[want[1]])}
            pay = None
            if errs:
                k, v = opt_kind(errs[0].ret)
                if isinstance(v, tuple) and v[0] == "agg" and v[3] == "SequenceTooLong":
                    pay = v[4]
            chk.ob("G06/err", "usize::try_from(&SeqSlice)", okerr and pay is not None and canon(pay[0]) == canon(L(P(1))) and
                   pay[1] == ("bin", "Div", c(64), BITS),
                   "Err: %s; expected SequenceTooLong(len, 64/BITS) exactly when bits > 64" % [p.describe()[:200] for p in errs], b["span"])
        # ---- From<Seq> for usize ----
        b = an.one(chk, "S-int", bio, "usize::from(Seq)", name="from", trait="std::convert::From", self_re=r"^usize$", targ_re=r"^seq::Seq<A>$")
        if b:
            paths, _ = an.analyse(cfg, b)
            res, ag = an.strip_assert_guards(paths)
            r = [p for p in paths if p.end == "return"]
            ok = len(r) == 1 and not res[id(r[0])] and an.is_call(r[0].ret, re.compile(r"BitField>::load_le::<usize>$"), (("bits", P(1)),))
            chk.ob("S-int", "usize::from(Seq)", ok, "usize::from(seq) = %s, expected load_le::<usize>(content)" % (show(r[0].ret) if r else "?"), b["span"])
        # ---- Kmer <-> integer ----
        for st, src in (("kmer::Kmer<A, K>", "usize"), ("kmer::Kmer<A, K, u64>", "u64"), ("kmer::Kmer<A, K, u64>", "usize")):
            b = an.one(chk, "S-kmer-int", bio, "%s::from(%s)" % (st, src), name="from", trait="std::convert::From", self_re="^" + re.escape(st) + "$", targ_re="^" + src + "$")
            if b:
                paths, _ = an.analyse(cfg, b)
                r = [p for p in paths if p.end == "return"]
                ok = len(r) == 1 and not r[0].guards and r[0].ret[0] == "agg" and r[0].ret[1] == "kmer::Kmer" and r[0].ret[4][1] == P(1)
                chk.ob("S-kmer-int", "%s::from(%s)" % (st, src), ok, "must be the identity on storage: " + (show(r[0].ret) if r else "?"), b["span"])
        b = an.one(chk, "S-kmer-int", bio, "usize::from(&Kmer)", name="from", trait="std::convert::From", self_re=r"^usize$", targ_re=r"^&kmer::Kmer<A, K, S>$")
        if b:
            paths, _ = an.analyse(cfg, b)
            r = [p for p in paths if p.end == "return"]
            ok = len(r) == 1 and not r[0].guards and an.is_call(r[0].ret, "CONV<S -> usize>", (F(P(1), "bs"),))
            chk.ob("S-kmer-int", "usize::from(&Kmer)", ok, "must be storage.into(): " + (show(r[0].ret) if r else "?"), b["span"])
        # ---- G09 from_raw, into_raw ----
        b = an.one(chk, "G09", bio, "Seq::from_raw", name="from_raw", self_re=r"^seq::Seq<A>$", inherent=True)
        if b:
            check_from_raw(chk, cfg, b)
        b = an.one(chk, "S-raw", bio, "Seq::into_raw", name="into_raw", self_re=r"^seq::Seq<A>$", inherent=True)
        if b:
            paths, _ = an.analyse(cfg, b)
            r = [p for p in paths if p.end == "return"]
            ok = len(r) == 1 and not r[0].guards and an.is_call(r[0].ret, re.compile(r"^bitvec::vec::BitVec(<[^>]*>)?::as_raw_slice$"), (("bits", P(1)),))
            chk.ob("S-raw", "Seq::into_raw", ok, "into_raw = %s, expected as_raw_slice(self.bv)" % (show(r[0].ret) if r else "?"), b["span"])
        # ---- I-head ----
        seqctor.check(chk, cfg, "I-head")
    import core as _core
    for cfg in ctx.configs():
        chk.cfg = cfg.name
        _core.import_codec_core(chk, cfg)      # the symbols' own tables (C05)


def check_from_raw(chk, cfg, b):
    what = "Seq::from_raw"
    paths, _ = an.analyse(cfg, b)
    res, ag = an.strip_assert_guards(paths)
    somes = [p for p in paths if p.end == "return" and opt_kind(p.ret)[0] == "Some"]
    nones = [p for p in paths if p.end == "return" and opt_kind(p.ret)[0] == "None"]
    if len(somes) != 1 or len(nones) != 1:
        chk.cannot("G09", what, "expected one Some and one None path", b["span"])
        return
    p = somes[0]
    # the vector: from_slice(words), possibly truncated
    v = opt_kind(p.raw.ret)[1] if False else None
    N = an.norm_of(p)
    agg = opt_kind(p.ret)[1]
    rawagg = [t for t in __import__("terms").walk(p.raw.ret) if t[0] == "agg" and t[1] == "seq::Seq"]
    if not rawagg:
        chk.cannot("G09", what, "Some does not carry a Seq literal", b["span"])
        return
    bv = rawagg[0][4][1]
    base, ids = an.peel_posts(bv)
    nb = N(base)
    okb = an.is_call(nb, re.compile(r"^bitvec::vec::BitVec(<[^>]*>)?::from_slice$"), (P(2),))
    evs = [x for x in p.calls if x[3].idx in ids]
    okt = len(evs) == 1 and short(evs[0][0]) == "truncate" and canon(evs[0][1][1]) == canon(mul(P(1), BITS))
    chk.ob("R14", what, okb and okt, "Some(%s after %s); expected from_slice(words) truncated to len*BITS" % (
        show(nb), [(short(x[0]), [show(a) for a in x[1][1:]]) for x in evs]), b["span"])
    # guard: Some iff len*BITS <= bits(words)  (floor form len <= bits/BITS accepted as the same row)
    image = ("bitlen", nb)
    g_mul = cmp(mul(P(1), BITS), "Le", image)
    g_div = cmp(P(1), "Le", ("bin", "Div", image, BITS))

    def canon_guards(q):
        out = set()
        for g in res[id(q)]:
            if g[0] != "cmp":
                continue
            out.add((g[1], g[2]))
        return out

    # the guard mentions the vector before truncation: normalise `_n` (local) to its base value
    def subst(gs):
        return gs
    gs = canon_guards(p)
    gn = canon_guards(nones[0])
    ok = gs in ({g_mul}, {g_div}) and gn in ({(g_mul[0], nf.NEG[g_mul[1]])}, {(g_div[0], nf.NEG[g_div[1]])})
    chk.ob("G09", what, ok,
           "Some under %s / None under %s; expected Some exactly when len*BITS <= bits(image) (symbols must be compared with symbols, bits with bits)" % (gshow(gs), gshow(gn)),
           b["span"], kind="guard-mismatch", sample={"some_iff": gshow(gs)})
