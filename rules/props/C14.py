"""C14 Ambiguous-codon translation is sound and complete; reverse translation is exact."""
import itertools
import re

import an
import nf
import xlate
from an import P, F, L, c, cmp, canon, gset, gshow, opt_kind, short
from ctx import oracle
from props import C05
from terms import show


def static_symbols(cfg, path, codes_to_sym, bits):
    """decode an evaluated SeqArray static into its symbols"""
    for e in cfg.bio.evals.get(path, []):
        if e.get("kind") == "static" and e.get("bytes") is not None and e.get("adt") == "seq::array::SeqArray":
            n = int(e["adt_args"][1])
            val = int.from_bytes(bytes(e["bytes"]), "little")
            return [codes_to_sym.get((val >> (bits * i)) & ((1 << bits) - 1)) for i in range(n)], e["adt_args"]
    return None, None


def run(ctx, chk):
    chk.technique = "row table semantics: 29 evaluated IUPAC rows x first-match search vs NCBI table 1 over all 16^3 codons; search/inverse shape from loop-summarising dataflow"
    chk.explanation = (
        "The 29 ordered (IUPAC codon, amino) rows are read from initialise_iupac_to_amino's MIR; each codon is the rustc-evaluated static the "
        "iupac! literal expanded to. try_to_amino is shown to be: len != 3 -> InvalidCodon(codon); otherwise a first-match search over the rows "
        "in order with `row.contains(codon)` (subset test, C12) returning that row's amino; AmbiguousTranslation after the loop. With that "
        "search semantics the checker computes, for all 15^3 gap-free IUPAC codons, the set of amino acids of the matching concrete DNA codons "
        "under NCBI table 1 and requires Ok(X) exactly when that set is {X} (and some result for all 16^3). The inverse map has the "
        "order-insensitive per-amino shape (absent -> Some, present -> None); for all 21 amino acids Ok(c) is required exactly when the coding "
        "set is a product of nucleotide sets, c being that product's IUPAC codon; try_to_codon maps Some(Some) -> Ok, else AmbiguousCodon.")
    chk.not_decided = ["HashMap/OnceLock", "bitvec and/eq inside contains (C12 model rows)"]
    chk.assumptions = ["oracle/ncbi_table1.json, oracle/alphabets.json (IUPAC sets)", "C12 rows: contains = per-position subset on equal lengths"]
    orc = oracle("alphabets.json")
    sets = orc["iupac_sets"]
    ncbi = C05.ncbi_codon_table()
    for cfg in ctx.configs(need_all_features=True):
        chk.cfg = cfg.name
        chk.configs.append(cfg.name)
        bio = cfg.bio
        cs = cfg.codecs
        iu = cs.get("iupac::Iupac")
        am = cs.get("amino::Amino")
        if not iu or not am:
            chk.cannot("T-iupac-rows", "codecs", "Iupac/Amino codec not found")
            continue
        to_bits = iu.sym_fn("to_bits")
        to_char = iu.sym_fn("to_char")
        code_sym = {v[1]: k for k, v in to_bits.items() if v[0] == "int"}
        sym_letter = {k: chr(v[1]) for k, v in to_char.items() if v[0] == "int"}
        amino_char = {k: chr(v[1]) for k, v in am.sym_fn("to_char").items() if v[0] == "int"}
        mb = orc["codecs"][iu.ty]["member_bits"]
        # IUPAC code -> nucleotide set, through the oracle (C05 checks the codec against it)
        code_set = {}
        for s, code in ((s, to_bits[s][1]) for s in to_bits):
            code_set[code] = frozenset(b for b, m in mb.items() if code & m)
        # ---- rows ----
        b = an.one(chk, "T-iupac-rows", bio, "initialise_iupac_to_amino", name="initialise_iupac_to_amino") if False else None
        fb = [x for x in bio.bodies if x["path"] == "translation::standard::initialise_iupac_to_amino"]
        tbl_static = "translation::standard::IUPAC_TO_AMINO"
        # locate the initialiser through the call graph: the fn passed to get_or_init in try_to_amino
        ta = an.one(chk, "G20", bio, "Standard::try_to_amino", name="try_to_amino", trait="translation::PartialTranslationTable", self_re=r"^translation::standard::Standard$")
        if not ta:
            continue
        paths, _ = an.analyse(cfg, ta)
        init_fn = None
        table_term = None
        for p in paths:
            for key, args, res, ev in p.calls:
                if "OnceLock" in key and short(key) == "get_or_init" and len(args) == 2 and args[1][0] == "fn":
                    init_fn = args[1][1]
                    table_term = res
        if init_fn is None:
            chk.cannot("T-iupac-rows", "Standard::try_to_amino", "row table initialiser not reachable through get_or_init", ta["span"])
            continue
        ib = bio.body(init_fn)
        ipaths, _ = an.analyse(cfg, ib)
        ir = [p for p in ipaths if p.end == "return"]
        rows = []
        row_sel = None      # (selector of the codon component, selector of the amino component) of a table row
        if len(ir) == 1 and not ir[0].guards and ir[0].ret[0] == "array":
            for el in ir[0].ret[1]:
                # a row is a pair - a tuple or a two-field struct - of a Seq<Iupac> made from an iupac! literal and an amino acid
                comps = None
                if el[0] == "tuple" and len(el[1]) == 2:
                    comps = [(0, el[1][0]), (1, el[1][1])]
                elif el[0] == "agg" and len(el[4]) == 2 and bio.adts.get(el[1]) and bio.adts[el[1]]["kind"] == "struct":
                    fl = bio.adts[el[1]]["variants"][0]["fields"]
                    comps = [(fl[0]["name"], el[4][0]), (fl[1]["name"], el[4][1])]
                src = aa_el = window = None
                sel = [None, None]
                for nm, t in comps or []:
                    if t[0] == "agg" and t[1] == am.ty:
                        aa_el, sel[1] = t, nm
                    elif an.is_call(t, re.compile(r"^CONV<&seq::slice::SeqSlice<(codec::iupac::Iupac|A)> -> seq::Seq<(codec::iupac::Iupac|B)>>$")):
                        a = t[2][0]
                        if a[0] == "seqview" and a[1][0] == "static":
                            src, sel[0] = a[1][1], nm
                        elif a[0] == "sslice" and a[1][0] == "seqview" and a[1][1][0] == "static":
                            # symbols [lo, hi) of a longer literal (C03 R-index, imported): the row is that window
                            lo, hi = nf.poly(a[2]), nf.poly(a[3]) if a[3] is not None else None
                            if hi is not None and all(not m for m in lo) and all(not m for m in hi):
                                src, sel[0], window = a[1][1][1], nm, (lo.get((), 0), hi.get((), 0))
                if src is None or aa_el is None:
                    chk.cannot("T-iupac-rows", init_fn, "row is not a pair (iupac!(..).into(), Amino::X): " + show(el)[:120], ib["span"])
                    continue
                if row_sel is None:
                    row_sel = tuple(sel)
                elif row_sel != tuple(sel):
                    chk.cannot("T-iupac-rows", init_fn, "rows of different shapes", ib["span"])
                    continue
                el = ("tuple", (None, aa_el))
                syms, args = static_symbols(cfg, src, code_sym, iu.bits)
                if syms is not None and window is not None:
                    syms = syms[window[0]:window[1]] if 0 <= window[0] <= window[1] <= len(syms) else None
                if syms is None or None in syms:
                    chk.cannot("T-iupac-rows", init_fn, "static %s not evaluated to IUPAC symbols" % src, ib["span"])
                    continue
                chk.ob("T-iupac-rows/len", src.split("::")[-1], len(syms) == 3 and args[0] == iu.ty, "row codon %s has %d symbols" % (syms, len(syms)), ib["span"])
                rows.append((tuple(to_bits[s][1] for s in syms), el[1][1][3], "".join(sym_letter[s] for s in syms)))
        else:
            chk.cannot("T-iupac-rows", init_fn, "initialiser is not a single array literal", ib["span"])
        chk.floor("rows[%s]" % cfg.name, len(rows), 29)
        if not rows:
            continue
        # ---- search shape (G20) ----
        search_ok = check_search(chk, cfg, ta, paths, table_term, row_sel or (0, 1))
        # ---- semantics over all codons ----
        if search_ok:
            def first_match(codon):
                for rc, aa, _ in rows:
                    if all((rc[i] & codon[i]) == codon[i] for i in range(3)):
                        return aa
                return None
            allcodes = sorted(code_set)
            nchk = 0
            bad = 0
            for codon in itertools.product(allcodes, repeat=3):
                got = first_match(codon)
                if all(code_set[x] for x in codon):
                    aas = set()
                    for conc in itertools.product(*[sorted(code_set[x]) for x in codon]):
                        aas.add(ncbi["".join(conc)])
                    want = next(iter(aas)) if len(aas) == 1 else None
                    gotc = amino_char.get(got) if got else None
                    nchk += 1
                    if gotc != want:
                        bad += 1
                        letters = "".join(sym_letter[code_sym[x]] for x in codon)
                        chk.ob("T-iupac-sem", "codon " + letters, False,
                               "IUPAC codon %s translates to %s; its concrete codons code for {%s} so %s is required" % (
                                   letters, gotc or "AmbiguousTranslation", ",".join(sorted(aas)), want or "AmbiguousTranslation"), ta["span"], kind="unsound" if gotc else "incomplete")
            chk.ob("T-iupac-sem", "all gap-free IUPAC codons", bad == 0, "%d of %d codons wrong" % (bad, nchk), ta["span"], evals=nchk,
                   sample={"codons_checked": nchk, "rows": [r[2] + "->" + r[1] for r in rows[:5]]})
            chk.count("iupac codons[%s]" % cfg.name, nchk)
        # ---- inverse ----
        tc = an.one(chk, "S-inverse", bio, "Standard::try_to_codon", name="try_to_codon", trait="translation::PartialTranslationTable", self_re=r"^translation::standard::Standard$")
        if tc:
            cpaths, _ = an.analyse(cfg, tc)
            inv_fn = None
            for p in cpaths:
                for key, args, res, ev in p.calls:
                    if "OnceLock" in key and short(key) == "get_or_init" and len(args) == 2 and args[1][0] == "fn":
                        inv_fn = args[1][1]
                        inv_term = res
            if inv_fn is None:
                chk.cannot("S-inverse", "Standard::try_to_codon", "inverse map initialiser not reachable through get_or_init", tc["span"])
            else:
                vb = bio.body(inv_fn)
                r = xlate.inverse_shape(chk, cfg, vb, "S-inverse", inv_fn.split("::")[-1],
                                        lambda s: s[0] == "call" and "get_or_init" in s[1] and s[2][1] == ("fn", init_fn, ()))
                if r is not None:
                    chk.ob("S-inverse/result", inv_fn.split("::")[-1], r.ret[0] == "loopvar", "must return the map that was filled", vb["span"])
                    # semantics: per amino
                    per = {}
                    for rc, aa, letters in rows:
                        per.setdefault(aa, []).append((rc, letters))
                    nam = 0
                    for aa in am.items_order:
                        ch = amino_char[aa]
                        coding = {cod for cod, a in ncbi.items() if a == ch}
                        proj = [frozenset(x[i] for x in coding) for i in range(3)]
                        is_product = set("".join(t) for t in itertools.product(*proj)) == coding and coding
                        want = None
                        if is_product:
                            want = tuple(sum(mb[b] for b in proj[i]) for i in range(3))
                        got = per.get(aa, [])
                        gotc = got[0][0] if len(got) == 1 else None
                        chk.ob("T-inverse-sem", "amino " + ch, gotc == want,
                               "reverse translation of %s gives %s; coding set {%s} %s" % (
                                   ch, got[0][1] if len(got) == 1 else "AmbiguousCodon (%d rows)" % len(got), ",".join(sorted(coding)),
                                   "is exactly one IUPAC codon" if want else "is not a single IUPAC codon"), vb["span"],
                               sample={"amino": ch, "codon": got[0][1] if len(got) == 1 else None})
                        nam += 1
                    chk.floor("amino acids[%s]" % cfg.name, nam, 21)
                getter = re.compile(r"HashMap::<codec::amino::Amino, std::option::Option<seq::Seq<codec::iupac::Iupac>>>::get::<codec::amino::Amino>$")
                xlate.variant_flow(chk, cfg, tc, "S-variant-flow", "Standard::try_to_codon",
                                   lambda t: an.is_call(t, getter) and t[2][1] == P(2) and "get_or_init" in show(t[2][0]),
                                   {"Some(Some)": "Ok(clone)", "Some(None)": "Err(AmbiguousCodon)", "None": "Err(AmbiguousCodon)"})


    _imports(chk, ctx)

def _imports(chk, ctx):
    import core
    for cfg in ctx.configs(need_all_features=True):
        chk.cfg = cfg.name
        # a row matches a codon when row.codon.contains(codon): the subset test is C12's G-contains rows (and the IUPAC set tables)
        core.import_rows(chk, cfg, "C12", "props.C12", ("G-contains", "S-bitops", "T-"))


def check_search(chk, cfg, b, paths, table_term, row_sel=(0, 1)):
    what = "Standard::try_to_amino"
    L3 = cmp(L(P(2)), "Eq", c(3))
    into_seq = re.compile(r"^CONV<&seq::slice::SeqSlice<(codec::iupac::Iupac|A)> -> seq::Seq<(codec::iupac::Iupac|B)>>$")
    inval = [p for p in paths if p.end == "return" and opt_kind(p.ret)[0] == "Err" and opt_kind(p.ret)[1][3] == "InvalidCodon"]
    ok1 = len(inval) == 1 and gset(inval[0].guards) == {(L3[0], nf.NEG[L3[1]])} and not inval[0].others() and \
        an.is_call(opt_kind(inval[0].ret)[1][4][0], into_seq, (P(2),))
    # scan-first form: the table is searched before the length is looked at, and after the loop the length picks the error.
    # Equivalent to the length-first form because no row can match a codon of another length: every row codon has three symbols
    # (T-iupac-rows/len) and Seq<Iupac>::contains is false whenever the lengths differ (C12's G-contains/len, imported below) -
    # if either premise fails, that obligation is the report.
    nxt_call = re.compile(r"as std::iter::Iterator>::next$")
    def exhausted(g):
        return g[0] == "sw" and g[1][0] == "discr" and an.is_call(g[1][1], nxt_call) and g[2] == "==" and g[3] == 0
    scan_first = not ok1 and len(inval) == 1 and gset(inval[0].guards) == {(L3[0], nf.NEG[L3[1]])} and \
        len(inval[0].others()) == 1 and exhausted(inval[0].others()[0]) and \
        an.is_call(opt_kind(inval[0].ret)[1][4][0], into_seq, (P(2),))
    ok1 = ok1 or scan_first
    chk.ob("G20/len", what, ok1, "InvalidCodon must be returned exactly when len != 3, carrying the codon: %s" % [p.describe()[:160] for p in inval], b["span"])
    conts = [p for p in paths if p.end == "continue"]
    oks = [p for p in paths if p.end == "return" and opt_kind(p.ret)[0] == "Ok"]
    ambs = [p for p in paths if p.end == "return" and opt_kind(p.ret)[0] == "Err" and opt_kind(p.ret)[1][3] == "AmbiguousTranslation"]
    other = [p for p in paths if p not in inval + conts + oks + ambs and p.end != "panic"]
    good = len(conts) == 1 and len(oks) == 1 and len(ambs) == 1 and not other
    if good:
        item, nxt = xlate.loop_item(oks[0])
        row_codon, row_amino = F(item, row_sel[0]), F(item, row_sel[1])
        contains = re.compile(r"^seq::Seq::<codec::iupac::Iupac>::contains$")
        def cg(p):
            return [g for g in p.guards if g[0] == "bool" and an.is_call(g[1], contains)]
        g_ok, g_ct = cg(oks[0]), cg(conts[0])
        good = len(g_ok) == 1 and g_ok[0][2] is True and g_ok[0][1][2] == (row_codon, P(2)) and \
            len(g_ct) == 1 and g_ct[0][2] is False and g_ct[0][1][2] == (row_codon, P(2)) and \
            opt_kind(oks[0].ret)[1] == row_amino and (gset(oks[0].guards) == set() and gset(conts[0].guards) == set() and gset(ambs[0].guards) == {L3} if scan_first else L3 in gset(oks[0].guards)) and \
            an.is_call(opt_kind(ambs[0].ret)[1][4][0], into_seq, (P(2),)) and not cg(ambs[0])
        src = xlate.plain_source(cfg, xlate.iter_source(oks[0]))
        good = good and src is not None and src == xlate.plain_source(cfg, table_term)
    chk.ob("G20/search", what, good,
           "after the length test the function must scan the row table in order, return Ok(row.amino) at the first row with row.codon.contains(codon), "
           "and AmbiguousTranslation(codon) after the loop; found %s" % [p.describe()[:120] for p in paths if p.end != "panic"][:5], b["span"])
    return good and ok1
