"""C01 Text <-> packed sequence round trip is lossless; bad input is rejected exactly."""
import re

import an
import nf
import pipes
from an import P, F, short
from ctx import oracle
from props import C05, C06, C11, C03
from terms import show

SEQ = r"^seq::Seq<A>$"
# adapters that hand the same bytes on, in order (std rows)
ADAPT = re.compile(r"^core::str::<impl str>::as_bytes$|^std::string::String::as_str$|^std::slice::<impl \[u8\]>::to_vec$|^<std::string::String as std::ops::Deref>::deref$|^std::string::String::as_bytes$"
                   r"|^std::string::String::into_bytes$|^std::vec::Vec::<u8>::as_slice$|^<std::vec::Vec<u8> as std::ops::Deref>::deref$|^core::str::<impl str>::bytes$"
                   r"|^<std::string::String as std::convert::AsRef<str>>::as_ref$|^<std::string::String as std::convert::AsRef<\[u8\]>>::as_ref$|^<str as std::convert::AsRef<\[u8\]>>::as_ref$"
                   r"|^std::string::String::into_boxed_str$|^<std::vec::Vec<u8> as std::convert::AsRef<\[u8\]>>::as_ref$")


def entry(chk, cfg, what, **kw):
    return an.one(chk, "S-parse", cfg.bio, what, **kw)


def run(ctx, chk):
    chk.technique = "codec table agreement (exhaustive) + parser/display pipeline normal forms over the resolved impl set"
    chk.explanation = (
        "(a) For each codec try_from_ascii accepts exactly the documented alphabet, inverts to_char on every symbol, to_char is injective and bytes "
        ">= 0x80 are refused (tables folded from MIR; shared with C05). (b) All text/byte entry points (TryFrom<&str>, String, &String, &[u8], "
        "Vec<u8>, FromStr) reduce, through adapters that pass the same bytes on (as_bytes, as_str, to_vec), to one normal form: collect into "
        "Result<Seq,ParseBioError> of a map over the input bytes in order with b -> try_from_ascii(b).ok_or(UnrecognisedBase(b)), the error "
        "payload being the closure's own parameter; collecting a Seq is with_capacity + one push per item (C06 rows). (c) push appends "
        "view_bits::<Lsb0>(to_bits)[0..BITS). (d) Display for Seq/SeqSlice and String::from(Seq|&Seq|&SeqSlice) reduce to collect::<String> of "
        "map(to_char) over the symbol iterator of the content. (e) the symbol iterator and Index<usize> rows are imported from C11/C03.")
    chk.not_decided = ["that collect::<Result<_,_>> stops at the first Err and bitvec appends in order across word boundaries (std/bitvec rows)"]
    chk.assumptions = ["std: FromIterator<Result<T,E>> for Result<C,E> is left-to-right and returns the first Err", "bitvec extend_from_bitslice appends in order"]
    orc = oracle("alphabets.json")
    nentry = 0
    for cfg in ctx.configs():
        chk.cfg = cfg.name
        chk.configs.append(cfg.name)
        bio = cfg.bio
        # (a) tables
        for cd in cfg.codecs:
            C05.check_codec(chk, cfg, cd, orc, ctx.decls.get(cd.ty))
            tfa = cd.table_u8("try_from_ascii")
            if tfa:
                for b in range(128, 256):
                    chk.ob("T-ascii/high", "%s byte 0x%02x" % (cd.short, b), tfa[b] == ("none",) or b in [ord(ch) for ch in orc["codecs"].get(cd.ty, {}).get("alphabet", "")],
                           "non-ASCII byte 0x%02x accepted: %s" % (b, tfa[b]), cd.where)
        # (b) entry points
        # every entry point is either the strict parser over (an order-preserving adapter of) its own argument, or a delegation
        # of (an adapter of) its argument to an entry point already established - in whichever direction the delegations run
        order = [("TryFrom<Vec<u8>> for Seq", dict(name="try_from", trait="std::convert::TryFrom", self_re=SEQ, targ_re=r"^std::vec::Vec<u8>$")),
                 ("TryFrom<&[u8]> for Seq", dict(name="try_from", trait="std::convert::TryFrom", self_re=SEQ, targ_re=r"^&\[u8\]$")),
                 ("TryFrom<&str> for Seq", dict(name="try_from", trait="std::convert::TryFrom", self_re=SEQ, targ_re=r"^&str$")),
                 ("TryFrom<String> for Seq", dict(name="try_from", trait="std::convert::TryFrom", self_re=SEQ, targ_re=r"^std::string::String$")),
                 ("TryFrom<&String> for Seq", dict(name="try_from", trait="std::convert::TryFrom", self_re=SEQ, targ_re=r"^&std::string::String$")),
                 ("FromStr for Seq", dict(name="from_str", trait="std::str::FromStr", self_re=SEQ))]
        targets = {}
        pending = []
        for what, kw in order:
            b = entry(chk, cfg, what, **kw)
            if b:
                paths, _ = an.analyse(cfg, b)
                pending.append((what, b, [p for p in paths if p.end == "return"]))

        def strip(a):
            while an.is_call(a, ADAPT) and len(a[2]) == 1:
                a = a[2][0]
            return a
        verdict = {}
        progress = True
        while progress and pending:
            progress = False
            for item in list(pending):
                what, b, r = item
                ok = False
                got = show(r[0].ret)[:200] if r else "?"
                if len(r) == 1 and not r[0].guards and r[0].ret[0] == "call":
                    t = r[0].ret
                    if t[1] in targets and len(t[2]) == 1:
                        ok = strip(t[2][0]) == P(1)
                    elif t[1] not in [x[1]["path"] for x in pending]:
                        x, d = pipes.strict_parse_of(cfg, t)
                        ok = x is not None and strip(x) == P(1)
                        got += " / " + d
                    else:
                        continue      # delegates to an entry point not judged yet
                verdict[what] = (ok, got, b)
                pending.remove(item)
                progress = True
                if ok:
                    targets[b["path"]] = True
        for what, b, r in pending:
            verdict[what] = (False, "circular delegation: " + (show(r[0].ret)[:160] if r else "?"), b)
        for what, kw in order:
            if what in verdict:
                ok, got, b = verdict[what]
                chk.ob("S-parse", what, ok, "must reduce to the strict byte parser over the same bytes in order; got " + got, b["span"],
                       sample="strict parser normal form" if what.startswith("TryFrom<Vec") else None)
                if ok:
                    nentry += 1
        # (c) push, (b') collection = one push per item: imported C06 rows
        _import_rows(chk, cfg)
        # (d) display
        sb = an.one(chk, "S-display", bio, "String::from(&SeqSlice)", name="from", trait="std::convert::From", self_re=r"^std::string::String$", targ_re=r"^&seq::slice::SeqSlice<A>$")
        str_from_slice = None
        if sb:
            paths, _ = an.analyse(cfg, sb)
            r = [p for p in paths if p.end == "return"]
            ok = len(r) == 1 and not r[0].guards and pipes.map_collect_of(r[0].ret, "std::string::String", "codec::Codec::to_char") == P(1)
            if not ok and len(r) == 1 and not r[0].guards:
                # the same characters pushed into a pre-sized String: String::with_capacity(_) (or new()) then one extend(map(iter(content), to_char))
                base, ids = an.peel_posts(r[0].raw.ret)
                nb = an.norm_of(r[0])(base)
                evs = [x for x in r[0].calls if x[3].idx in ids]
                if an.is_call(nb, re.compile(r"^std::string::String::(with_capacity|new)$")) and len(evs) == 1 and \
                        re.search(r"^<std::string::String as std::iter::Extend<char>>::extend::<", evs[0][0]):
                    src = evs[0][1][1]
                    fake = ("call", "<X as std::iter::Iterator>::collect::<std::string::String>", (src,), None)
                    ok = pipes.map_collect_of(fake, "std::string::String", "codec::Codec::to_char") == P(1)
            chk.ob("S-display", "String::from(&SeqSlice)", ok, "must be content.iter().map(to_char).collect::<String>(); got " + (show(r[0].ret)[:200] if r else "?"), sb["span"],
                   sample="Collect<String>(Map(Iter(content), to_char))")
            str_from_slice = "CONV<&seq::slice::SeqSlice<A> -> std::string::String>" if ok else None
        db = an.one(chk, "S-display", bio, "Display for SeqSlice", name="fmt", trait="std::fmt::Display", self_re=r"^seq::slice::SeqSlice<A>$")
        if db and str_from_slice:
            paths, _ = an.analyse(cfg, db)
            r = [p for p in paths if p.end == "return"]
            ok = False
            if len(r) == 1 and not r[0].guards and an.is_call(r[0].ret, re.compile(r"^std::fmt::Formatter::<'_>::write_fmt$|^std::fmt::Formatter::<'_>::write_str$")):
                t = r[0].ret
                if short(t[1]) == "write_str":
                    sarg = t[2][1]
                    while an.is_call(sarg, re.compile(r"^<std::string::String as std::ops::Deref>::deref$|^std::string::String::as_str$|^<std::string::String as std::convert::AsRef<str>>::as_ref$")):
                        sarg = sarg[2][0]
                    ok = t[2][0] == P(2) and an.is_call(sarg, str_from_slice, (P(1),))
                else:
                    a = t[2][1]
                    if an.is_call(a, re.compile(r"^std::fmt::Arguments::<'_>::new::<")):
                        tmpl, argv = a[2][0], a[2][1]
                        single = tmpl[0] == "mem" and tuple(tmpl[1]) == (0xC0, 0) or (tmpl[0] == "zst")
                        ok = t[2][0] == P(2) and argv[0] == "array" and len(argv[1]) == 1 and \
                            an.is_call(argv[1][0], re.compile(r"new_display::<std::string::String>$")) and \
                            an.is_call(argv[1][0][2][0], str_from_slice, (P(1),)) and bool(single)
            chk.ob("S-display", "Display for SeqSlice", ok, "must write exactly String::from(self): " + (show(r[0].ret)[:200] if r else "?"), db["span"])
        owner_ok, pending = set(), []
        for what, kw, want in (("Display for Seq", dict(name="fmt", trait="std::fmt::Display", self_re=SEQ), "fmt"),
                               ("String::from(Seq)", dict(name="from", trait="std::convert::From", self_re=r"^std::string::String$", targ_re=r"^seq::Seq<A>$"), "from"),
                               ("String::from(&Seq)", dict(name="from", trait="std::convert::From", self_re=r"^std::string::String$", targ_re=r"^&seq::Seq<A>$"), "from")):
            b = an.one(chk, "S-display", bio, what, **kw)
            if not b:
                continue
            paths, _ = an.analyse(cfg, b)
            r = [p for p in paths if p.end == "return"]
            ok = False
            if len(r) == 1 and not r[0].guards and r[0].ret[0] == "call":
                t = r[0].ret
                tgt = db["path"] if want == "fmt" and db else str_from_slice
                ok = tgt is not None and t[1] == tgt and t[2][0] == ("seqview", P(1)) and (len(t[2]) == 1 or t[2][1] == P(2))
                if ok and want == "from":
                    owner_ok.add("CONV<%s -> std::string::String>" % kw["targ_re"].strip("^$"))
            pending.append((what, b, r, ok))
        for what, b, r, ok in pending:
            if not ok and len(r) == 1 and not r[0].guards and r[0].ret[0] == "call":
                # the by-value form may hand `&self` to the by-reference form (itself the delegation above)
                t = r[0].ret
                ok = t[1] in owner_ok and t[2] == (P(1),)
            chk.ob("S-display", what, ok, "must delegate to the SeqSlice form on content(self): " + (show(r[0].ret)[:200] if r else "?"), b["span"])
    chk.floor("parser entry points", nentry, 6 * len(chk.configs))


def _import_rows(chk, cfg):
    """rows owned by other properties that C01 depends on, evaluated here and tagged via=<owner>"""
    import core
    for owner, mod, rules in (("C06", "props.C06", ("R08", "S-extend")), ("C11", "props.C11", ("G02", "G05c/into_iter")), ("C03", "props.C03", ("R-index", "S-byte", "S-nth"))):
        core.import_rows(chk, cfg, owner, mod, rules)
