"""C02 Equality and hashing depend only on content, for every sequence type and offset."""
import re

import an
import kstorage
import nf
import terms
import xlate
from an import P, F, L, K, BITS, add, mul, c, cmp, canon, gset, gshow, short
from props import C08
from terms import show, I

PEQ = "std::cmp::PartialEq"
REF_EQ = re.compile(r"^std::cmp::impls::<impl std::cmp::PartialEq(<&[^>]*(<[^>]*>)?[^>]*>)? for &")
BITS_EQ = re.compile(r"^bitvec::(slice|vec)::traits::<impl std::cmp::PartialEq(<[^>]*>)? for bitvec::(slice::BitSlice|vec::BitVec)(<[^>]*>)?>::eq$")
BITS_HASH = re.compile(r"^<bitvec::(slice::BitSlice|vec::BitVec)(<[^>]*>)? as std::hash::Hash>::hash::<H>$|^bitvec::(slice|vec)::traits::<impl std::hash::Hash for bitvec::(slice::BitSlice|vec::BitVec)(<[^>]*>)?>::hash::<H>$")
USIZE_HASH = re.compile(r"^<usize as std::hash::Hash>::hash::<H>$|^(std|core)::hash::impls::<impl std::hash::Hash for usize>::hash::<H>$")
STORAGE_EQ = re.compile(r"^<S as std::cmp::PartialEq>::eq$|^<usize as std::cmp::PartialEq>::eq$")


def strip_lt(s):
    return re.sub(r"'[a-z_]+ ?", "", s or "")


class EqPolicy(terms.Policy):
    """inline crate-local PartialEq / Hash impls and private helpers; model `&A == &B` of std"""

    def __init__(self, crate):
        self.crate = crate

    def inline(self, callee, body, depth):
        imp = body.get("impl") or {}
        if imp.get("trait") in (PEQ, "std::hash::Hash"):
            return True
        if imp.get("trait") or imp.get("trait_default") or body["kind"] == "Closure":
            return False
        return not body["vis"].startswith("Public")

    def find_eq(self, a_ty, b_ty):
        out = []
        for b in self.crate.bodies:
            imp = b.get("impl") or {}
            if imp.get("trait") == PEQ and b["path"].endswith("::eq"):
                ta = imp.get("trait_args") or []
                head = lambda t: strip_lt(t).split("<")[0]
                if head(imp.get("self_ty")) == head(a_ty) and len(ta) > 1 and head(ta[1]) == head(b_ty):
                    out.append(b)
        return out

    def model(self, an_, frame, ev, path):
        f = ev.callee
        if "indirect" not in f and REF_EQ.match(ev.key) and f.get("krate") == "core" and short(ev.key) == "eq":
            # <&A as PartialEq<&B>>::eq(a, b)  ==  <A as PartialEq<B>>::eq(*a, *b)
            args = [x for x in (f.get("resolved_args") or []) if not x.startswith("'")]
            if len(args) >= 2:
                cands = self.find_eq(args[0], args[1])
                if len(cands) == 1 and frame.depth < an_.eng.max_depth:
                    a0 = terms._unref(frame, ev.args[0])
                    a1 = terms._unref(frame, ev.args[1])
                    sub = terms.Analysis(an_.eng, self)
                    outs = sub.run(cands[0], [a0, a1], frame.depth + 1)
                    rets = [o for o in outs if o.end == "return"]
                    if len(rets) == 1 and len(outs) == 1 and not rets[0].guards:
                        path.calls.extend(rets[0].calls)
                        return rets[0].ret
        return terms.std_model(an_, frame, ev, path)


def content_of(t):
    """bits(x) with x a sequence-like value -> x"""
    if isinstance(t, tuple) and t[0] == "bits":
        x = t[1]
        return x[1] if x[0] == "seqview" else x
    return None


def run(ctx, chk):
    chk.technique = "eq/hash feed normal forms over the resolved impl set (crate-local impls inlined) + guard rows for length tests + Borrow rows"
    chk.explanation = (
        "Every PartialEq impl among Seq/&Seq/SeqSlice/&SeqSlice (10, incl. the derived one) reduces, by inlining crate-local impls and the std "
        "`&A == &B` forwarding, to bitvec's == on content(lhs) and content(rhs) (both operands, not conflated, not negated). The k-mer comparisons "
        "with Seq/SeqSlice/&SeqSlice first test len(rhs) == K (required; optional for SeqArray<A,K,1> whose length is K by type) and then "
        "compare storage with S::from_bitslice(content(rhs)); Kmer == Kmer is the derived storage comparison (content-only given canonical "
        "k-mers, C09 I-canon); Kmer == &str is to_string(self) == s; SeqSlice == &str returns false unless byte length == len and compares "
        "each symbol with try_from_ascii of the byte (None -> false). Every Hash impl of a sequence type (Seq, SeqSlice, Kmer) feeds the same "
        "sequence [content bits, symbol count] to the hasher: for Kmer the bits are storage[0, K*BITS) and the count is K. "
        "Borrow<SeqSlice> for Seq and &Seq return content(self), so HashMap<Seq,_>::get(&SeqSlice) is well defined.")
    chk.not_decided = ["collision behaviour of hashers", "bitvec's alignment-independent == and per-bit Hash (model rows)",
                       "the full element-wise &str comparison loop beyond its guards and per-element operations"]
    chk.assumptions = ["bitvec model rows PartialEq/Hash", "std `impl PartialEq<&B> for &A` forwards to the pointee impl", "C09 I-canon for derived Kmer == Kmer"]
    neq = nhash = 0
    for cfg in ctx.configs():
        chk.cfg = cfg.name
        chk.configs.append(cfg.name)
        bio = cfg.bio
        pol = EqPolicy(bio)
        kstorage.storage_rows(chk, cfg)
        # ---------- PartialEq ----------
        for b in bio.bodies:
            imp = b.get("impl") or {}
            if imp.get("trait") != PEQ or not b["path"].endswith("::eq"):
                continue
            st = strip_lt(imp.get("self_ty"))
            rhs = strip_lt((imp.get("trait_args") or ["", ""])[1])
            fam = lambda t: re.match(r"^&?(seq::Seq<A>|seq::slice::SeqSlice<A>)$", t)
            what = "%s == %s" % (st, rhs)
            if fam(st) and fam(rhs):
                paths, _ = an.analyse(cfg, b, policy=pol)
                r = [p for p in paths if p.end == "return"]
                ok = False
                got = "; ".join(p.describe()[:160] for p in paths)
                if len(r) == 1 and not r[0].guards and an.is_call(r[0].ret, BITS_EQ):
                    x, y = content_of(r[0].ret[2][0]), content_of(r[0].ret[2][1])
                    ok = {x, y} == {P(1), P(2)}
                chk.ob("S-eq", what, ok, "must reduce to bitvec == on content(lhs) and content(rhs); got " + got, b["span"], sample=got[:200])
                neq += 1
            elif st.startswith("kmer::Kmer<"):
                neq += check_kmer_eq(chk, cfg, b, pol, what, rhs)
            elif st == "seq::slice::SeqSlice<A>" and rhs == "&str":
                neq += check_slice_str(chk, cfg, b, what)
            elif re.match(r"^&?(seq::Seq<|seq::slice::SeqSlice<|seq::array::SeqArray<)", st) or re.match(r"^&?(seq::Seq<|seq::slice::SeqSlice<|seq::array::SeqArray<|kmer::Kmer<)", rhs):
                # an equality impl on a sequence type outside the table: it must delegate to a verified one on the contents
                paths, _ = an.analyse(cfg, b, policy=an.NoInline())
                r = [p for p in paths if p.end == "return"]
                ok = False
                got = "; ".join(p.describe()[:160] for p in paths)
                if len(r) == 1 and not r[0].guards and r[0].ret[0] == "call" and re.search(r"PartialEq(<[^>]*(<[^>]*>)?[^>]*>)?>::eq$|PartialEq(<.*>)? for .*>::eq$", r[0].ret[1]):
                    args = r[0].ret[2]
                    def base(t):
                        # the operand itself, its content view, or the text of an owned string
                        while isinstance(t, tuple) and (t[0] == "seqview" or an.is_call(t, re.compile(
                                r"^std::string::String::as_str$|^<std::string::String as std::ops::Deref>::deref$|^<std::string::String as std::convert::AsRef<str>>::as_ref$"))):
                            t = t[1] if t[0] == "seqview" else t[2][0]
                        return t
                    ok = len(args) == 2 and {base(args[0]), base(args[1])} == {P(1), P(2)} and "seq::" in r[0].ret[1] + " kmer::" and \
                        ("seq::slice::SeqSlice" in r[0].ret[1] or "seq::Seq" in r[0].ret[1] or "kmer::Kmer" in r[0].ret[1])
                chk.ob("S-eq/new", what, ok, "equality impl without a row: it must be a plain delegation to a verified sequence comparison on the two operands' contents; got " + got,
                       b["span"], kind="cannot-establish")
        # `ne` must stay the negation of `eq`: no impl overrides it
        an.no_overrides(chk, bio, "I-override", "sequence types", PEQ, r"^&?(seq::Seq<|seq::slice::SeqSlice<|kmer::Kmer<)", ("eq",))
        an.no_overrides(chk, bio, "I-override", "sequence types", "std::hash::Hash", r"^&?(seq::Seq<|seq::slice::SeqSlice<|kmer::Kmer<)", ("hash",))
        # ---------- Hash ----------
        for b in bio.bodies:
            imp = b.get("impl") or {}
            if imp.get("trait") != "std::hash::Hash" or not b["path"].endswith("::hash"):
                continue
            st = strip_lt(imp.get("self_ty"))
            if not re.match(r"^(seq::Seq<A>|seq::slice::SeqSlice<A>|seq::array::SeqArray<.*>|kmer::Kmer<.*>)$", st):
                continue
            what = "Hash for " + st
            paths, _ = an.analyse(cfg, b, policy=pol)
            r = [p for p in paths if p.end == "return"]
            if len(r) != 1 or r[0].guards or len(paths) != 1:
                chk.cannot("S-hash", what, "not a single unconditional path", b["span"])
                continue
            feed = []
            for key, args, res, ev in r[0].calls:
                if not re.search(r"Hash>::hash(::<|$)|impl std::hash::Hash for .*>::hash", key):
                    continue
                if args[-1] != P(2):
                    feed.append(("other-state", show(args[-1])))
                    continue
                if BITS_HASH.match(key):
                    feed.append(("Bits", args[0]))
                elif USIZE_HASH.match(key):
                    feed.append(("Usize", canon(args[0])))
                else:
                    feed.append(("Other", key))
            if st.startswith("kmer::Kmer<"):
                tb = ("call", "<S as kmer::sealed::KmerStorage>::to_bitarray", (F(P(1), "bs"),), None)
                want = [("Bits", ("bslice", tb, canon(c(0)), canon(mul(K, BITS)))), ("Usize", canon(K))]
                wd = "[Bits(storage[0 .. K*BITS]), Usize(K)]"
            else:
                want = [("Bits", ("bits", P(1))), ("Usize", canon(L(P(1))))]
                wd = "[Bits(content(self)), Usize(len(self))]"
            pretty = [(k, show(v) if isinstance(v, tuple) else v) for k, v in feed]
            chk.ob("S-hash", what, feed == want, "hasher feed is %s; every sequence type must feed %s" % (pretty, wd), b["span"],
                   kind="feed-mismatch", sample={"type": st, "feed": pretty})
            nhash += 1
        # ---------- Borrow ----------
        for sre, nm in ((r"^seq::Seq<A>$", "Seq"), (r"^&seq::Seq<A>$", "&Seq")):
            b = an.one(chk, "S-borrow", bio, "Borrow<SeqSlice> for " + nm, name="borrow", trait="std::borrow::Borrow", self_re=sre)
            if b:
                paths, _ = an.analyse(cfg, b)
                r = [p for p in paths if p.end == "return"]
                chk.ob("S-borrow", "Borrow<SeqSlice> for " + nm, len(r) == 1 and not r[0].guards and r[0].ret == ("seqview", P(1)),
                       "borrow() = %s; expected content(self)" % (show(r[0].ret) if r else "?"), b["span"])
    import core
    for cfg in ctx.configs():
        chk.cfg = cfg.name
        # (e) derived Kmer == Kmer is content-only only for canonical storage: import C09's canonical-form rows
        core.import_rows(chk, cfg, "C09", "props.C09", ("I-canon", "R24", "G22", "R18", "R19", "R20", "I-width2", "R23", "S-rev/kmer"))
        # (f) "equal to its own displayed text and to no other sequence's": the comparison with text decodes each byte with
        # try_from_ascii and the text is produced with to_char, so the clause needs to_char injective and try_from_ascii its inverse
        # on every symbol of every codec (C01's table rows) and Display = the per-symbol to_char string (C01 S-display)
        core.import_rows(chk, cfg, "C01", "props.C01", ("T-inj-char", "T-rt-char", "S-display"))
        # the text comparison walks the symbols with iter(): SeqIter's transition rows (C11)
        core.import_rows(chk, cfg, "C11", "props.C11", ("G02", "G05c/into_iter", "S-glue"))
    import core as _core
    for cfg in ctx.configs():
        chk.cfg = cfg.name
        _core.import_codec_core(chk, cfg)      # the symbols' own tables (C05)
    chk.floor("eq impls over all configurations", neq, 17 * len(chk.configs))
    chk.floor("hash impls over all configurations", nhash, 3 * len(chk.configs))


def check_kmer_eq(chk, cfg, b, pol, what, rhs):
    paths, _ = an.analyse(cfg, b, policy=pol)
    res, ag = an.strip_assert_guards(paths)
    rets = [p for p in paths if p.end == "return"]
    if rhs.startswith("kmer::Kmer<"):
        ok = len(rets) == 1 and not res[id(rets[0])] and an.is_call(rets[0].ret, STORAGE_EQ) and \
            {rets[0].ret[2][0], rets[0].ret[2][1]} == {F(P(1), "bs"), F(P(2), "bs")}
        chk.ob("S-eq", what, ok, "derived Kmer == Kmer must compare the two storage words; got %s" % [p.describe()[:160] for p in rets], b["span"])
        return 1
    if rhs == "&str":
        ok = len(rets) == 1 and not rets[0].guards and an.is_call(rets[0].ret, re.compile(r"PartialEq<&&str> for &std::string::String>::eq$|<std::string::String as std::cmp::PartialEq<&str>>::eq$|<std::string::String as std::cmp::PartialEq<str>>::eq$")) and \
            an.is_call(rets[0].ret[2][0], re.compile(r"^<kmer::Kmer<A, K> as std::string::ToString>::to_string$"), (P(1),)) and rets[0].ret[2][1] == P(2)
        chk.ob("S-eq", what, ok, "Kmer == &str must be to_string(self) == s; got %s" % [p.describe()[:200] for p in rets], b["span"])
        return 1
    optional = "SeqArray<A, K, 1>" in rhs
    falses = [p for p in rets if p.ret == ("int", 0, "bool")]
    cmps = [p for p in rets if p not in falses]
    lenrhs = L(P(2))
    eqg = cmp(lenrhs, "Eq", K)
    ok_len = len(falses) == 1 and gset(res[id(falses[0])]) == {(eqg[0], nf.NEG[eqg[1]])} and all(gset(res[id(p)]) == {eqg} for p in cmps)
    if optional:
        ok_len = ok_len or (not falses and all(not res[id(p)] for p in cmps))
    chk.ob("G-kmer-eq", what, ok_len,
           "the comparison must be guarded by len(rhs) == K (false otherwise)%s; false under %s, compare under %s" % (
               " - optional here, the array length is K by type" if optional else "", [gshow(gset(res[id(p)])) for p in falses], [gshow(gset(res[id(p)])) for p in cmps]),
           b["span"], kind="guard-mismatch")
    ok = False
    got = [show(p.ret)[:200] for p in cmps]
    if len(cmps) == 1 and an.is_call(cmps[0].ret, STORAGE_EQ):
        a0, a1 = cmps[0].ret[2]
        packed = [x for x in (a0, a1) if an.is_call(x, C08.FROM_BITSLICE)]
        viafn = [x for x in (a0, a1) if x[0] == "F" and x[2] == "bs" and C08.is_pack(x[1]) is not None]
        other = [x for x in (a0, a1) if x == F(P(1), "bs")]
        if len(packed) == 1 and len(other) == 1:
            src = content_of(packed[0][2][0])
            ok = src == P(2)
        elif len(viafn) == 1 and len(other) == 1:
            ok = content_of(C08.is_pack(viafn[0][1])) == P(2)
    chk.ob("S-eq", what, ok, "must compare self's storage with S::from_bitslice(content(rhs)); got %s" % got, b["span"], sample=got)
    return 1


def check_slice_str(chk, cfg, b, what):
    paths, _ = an.analyse(cfg, b, policy=an.ForkPolicy())
    rets = [p for p in paths if p.end == "return"]
    conts = [p for p in paths if p.end == "continue"]
    blen = ("call", "core::slice::<impl [u8]>::len", (("call", "core::str::<impl str>::as_bytes", (P(2),), None),), None)
    eqg = cmp(L(P(1)), "Eq", blen)
    neg = (eqg[0], nf.NEG[eqg[1]])
    early = [p for p in rets if gset(p.guards) == {neg} and not p.others()]
    okl = len(early) == 1 and early[0].ret == ("int", 0, "bool") and all(eqg in gset(p.guards) for p in rets + conts if p not in early)
    # length-last form: no early exit; the zip (which stops at the shorter side) is walked first and, once it is exhausted, the
    # answer is `bytes.len() == self.len()`.  Same function: true exactly when the lengths agree and every zipped pair matched.
    def exhausted(g):
        return g[0] == "sw" and an.is_call(g[1][1], xlate.NEXT) and g[2] == "==" and g[3] == 0
    length_last = False
    if not early:
        fin = [p for p in rets if p.ret not in (("int", 0, "bool"), ("int", 1, "bool"))]
        length_last = len(fin) == 1 and fin[0].guards and all(exhausted(g) for g in fin[0].guards) and nf.cmp_nf(fin[0].ret, True) == eqg and \
            not any(k == eqg[0] for p in rets + conts for k, _ in gset(p.guards))
    okl = okl or length_last
    chk.ob("G18", what, okl, "must return false when the byte length differs from the symbol count (before the element loop, or as the result once the zip is exhausted); paths: %s" % [p.describe()[:140] for p in rets][:4],
           b["span"], kind="guard-mismatch")
    trues = [p for p in rets if p.ret == ("int", 1, "bool")]
    # true only at loop exhaustion
    okt = len(trues) == 1 and all(g[0] == "cmp" or exhausted(g) for g in trues[0].guards)
    okt = okt or (length_last and not trues)
    # per element: decode the byte with try_from_ascii; None -> false; different -> false; equal -> continue
    oke = False
    if len(conts) == 1:
        item, nxt = xlate.loop_item(conts[0])
        sym, byte = F(item, 0), F(item, 1)
        dec = [x for x in conts[0].calls if x[0] == "<A as codec::Codec>::try_from_ascii"]
        zipok = an.is_call(xlate.iter_source(conts[0]) or (), re.compile(r"Iterator>::zip::<")) if xlate.iter_source(conts[0]) else False
        src = xlate.iter_source(conts[0])
        zipok = False
        if src is not None and an.is_call(src, re.compile(r"Iterator>::zip::<")):
            # the right-hand side is the text's bytes in order: as_bytes(), or an order-preserving iterator over them
            rhs = src[2][1]
            for _ in range(3):
                if an.is_call(rhs, re.compile(r"Iterator>::(copied|cloned)::<|^core::slice::<impl \[u8\]>::iter$|IntoIterator>::into_iter$")) and len(rhs[2]) == 1:
                    rhs = rhs[2][0]
            zipok = an.is_call(src[2][0], re.compile(r"^seq::slice::SeqSlice::<A>::iter$|into_iter$"), (P(1),)) and \
                (rhs == ("call", "core::str::<impl str>::as_bytes", (P(2),), None) or an.is_call(rhs, re.compile(r"^core::str::<impl str>::bytes$"), (P(2),)))
        if len(dec) == 1 and dec[0][1] == (byte,) and zipok:
            falses = [p for p in rets if p.ret == ("int", 0, "bool") and p not in early]
            # one false for None, one for inequality
            none_f = [p for p in falses if any(g[0] == "sw" and an.is_call(g[1][1], "<A as codec::Codec>::try_from_ascii") and ((g[2] == "==" and g[3] == 0) or (g[2] == "notin" and 1 in g[3])) for g in p.guards)]
            ne_f = [p for p in falses if p not in none_f]
            def cmp_guard(p, truth):
                for g in p.guards:
                    if g[0] == "bool" and an.is_call(g[1], re.compile(r"^<A as std::cmp::PartialEq>::(ne|eq)$")):
                        isne = g[1][1].endswith("::ne")
                        args = set(g[1][2])
                        payload = F(("downcast", dec[0][2], 1, "Some"), "0")
                        if args == {sym, payload}:
                            return (g[2] if isne else not g[2]) == truth
                return False
            oke = len(none_f) == 1 and len(ne_f) == 1 and cmp_guard(ne_f[0], True) and cmp_guard(conts[0], False)
    chk.ob("S-eq", what, okt and oke,
           "must compare element-wise over zip(self.iter(), bytes): try_from_ascii(byte) None -> false, symbol != decoded -> false, true only when the zip is exhausted",
           b["span"])
    return 1
