"""C20 Soft-masking changes case only and commutes with complement."""
import re

import an
import chunkloop
import core
from an import P
from props import C07
from terms import show


def run(ctx, chk):
    chk.technique = "exhaustive symbol tables of mask/unmask/comp by constant propagation + chunk-loop shape rule for the sequence-level loops"
    chk.explanation = (
        "For masked::Iupac (32 symbols) and masked::Dna (14 symbols) the functions mask, unmask and comp are folded over every symbol from MIR. "
        "Iupac: to_char(mask(s)) is the lower-case form of to_char(s) ('-' <-> '.'), unmask gives the upper-case form, both idempotent, "
        "unmask(mask(s)) = unmask(s), the nucleotide set (code with the flag bit cleared) never changes, mask(comp(s)) = comp(mask(s)). "
        "Dna: mask = unmask is an involution toggling the case of A,C,G,T,N and fixing gap and pad. At sequence level MaskableMut for Seq's "
        "mask and unmask loops have the per-chunk in-place shape store(chunk, to_bits(op(unsafe_from_bits(load_le(chunk))))) over an exact "
        "BITS-wide chunking with op = the same-named symbol operation (sibling cross-check), so they apply position-wise and keep the length; "
        "to_mask/to_unmask are the to_owned-then-op defaults. Commutation with reverse and complement at sequence level follows from position-wise "
        "application on both sides: the sequence-level comp/rev/revcomp loop rows of C07 are imported.")
    chk.not_decided = ["bitvec load_le/store on 5-bit chunks straddling words (model rows)"]
    chk.assumptions = ["bitvec model rows", "documented display characters (oracle/alphabets.json via C05)"]
    n = 0
    for cfg in ctx.configs(need_all_features=True):
        chk.cfg = cfg.name
        chk.configs.append(cfg.name)
        cs = cfg.codecs
        # ---- masked::Iupac ----
        c = cs.get("masked::iupac::Iupac")
        if c is None:
            chk.cannot("T-mask", "masked::iupac::Iupac", "codec not found")
        else:
            mask = c.sym_mut_fn("mask", "MaskableMut")
            unmask = c.sym_mut_fn("unmask", "MaskableMut")
            comp = c.sym_mut_fn("comp", "ComplementMut")
            ch = {k: chr(v[1]) for k, v in c.sym_fn("to_char").items() if v[0] == "int"}
            code = {k: v[1] for k, v in c.sym_fn("to_bits").items() if v[0] == "int"}
            if not (mask and unmask and comp) or len(ch) != len(c.symbols):
                chk.cannot("T-mask", "masked::iupac::Iupac", "mask/unmask/comp tables not extractable", c.where)
            else:
                def lower(x):
                    return "." if x == "-" else x.lower()

                def upper(x):
                    return "-" if x == "." else x.upper()
                flag = 0b00100
                for s in c.items_order:
                    m, u, k = mask[s], unmask[s], comp[s]
                    w = "masked::iupac::Iupac::" + s
                    okm = m[0] == "sym" and ch[m[1]] == lower(ch[s])
                    chk.ob("T-mask", w, okm, "mask(%s '%s') = %s; expected the lower-case form '%s'" % (s, ch[s], m, lower(ch[s])), c.where, sample={"sym": s, "mask": m[1] if m[0] == "sym" else None})
                    oku = u[0] == "sym" and ch[u[1]] == upper(ch[s])
                    chk.ob("T-unmask", w, oku, "unmask(%s '%s') = %s; expected the upper-case form '%s'" % (s, ch[s], u, upper(ch[s])), c.where)
                    if not (okm and oku and k[0] == "sym"):
                        continue
                    chk.ob("T-mask-idem", w, mask[m[1]] == m and unmask[u[1]] == u, "mask/unmask not idempotent on %s" % s, c.where)
                    chk.ob("T-unmask-mask", w, unmask[m[1]] == u, "unmask(mask(%s)) = %s, unmask(%s) = %s" % (s, unmask[m[1]], s, u), c.where)
                    chk.ob("T-mask-set", w, (code[m[1]] & ~flag) == (code[s] & ~flag) and (code[u[1]] & ~flag) == (code[s] & ~flag),
                           "masking changes the nucleotide set of %s" % s, c.where)
                    chk.ob("T-mask-comp", w, mask[k[1]] == comp[m[1]], "mask(comp(%s)) = %s but comp(mask(%s)) = %s" % (s, mask[k[1]], s, comp[m[1]]), c.where)
                n += 1
        # ---- masked::Dna ----
        c = cs.get("masked::dna::Dna")
        if c is None:
            chk.cannot("T-mask", "masked::dna::Dna", "codec not found")
        else:
            mask = c.sym_mut_fn("mask", "MaskableMut")
            unmask = c.sym_mut_fn("unmask", "MaskableMut")
            ch = {k: chr(v[1]) for k, v in c.sym_fn("to_char").items() if v[0] == "int"}
            if not (mask and unmask) or len(ch) != len(c.symbols):
                chk.cannot("T-mask", "masked::dna::Dna", "mask/unmask tables not extractable", c.where)
            else:
                by_ch = {v: k for k, v in ch.items()}
                for s in c.items_order:
                    w = "masked::dna::Dna::" + s
                    m, u = mask[s], unmask[s]
                    x = ch[s]
                    if x in "ACGTNacgtn":
                        want = by_ch.get(x.swapcase())
                        chk.ob("T-mask", w, m == ("sym", want) and u == ("sym", want), "mask/unmask(%s '%s') = %s/%s; expected the case toggle %s" % (s, x, m, u, want), c.where,
                               sample={"sym": s, "mask": m[1] if m[0] == "sym" else None})
                        if m[0] == "sym":
                            chk.ob("T-mask-involution", w, mask.get(m[1]) == ("sym", s), "mask(mask(%s)) = %s" % (s, mask.get(m[1])), c.where)
                    elif x in "-.":
                        chk.ob("T-mask", w, m == ("sym", s) and u == ("sym", s), "gap/pad %s '%s' must be fixed by mask/unmask; got %s/%s" % (s, x, m, u), c.where)
                    else:
                        chk.ob("T-mask-total", w, m[0] == "sym" and u[0] == "sym", "mask/unmask(%s) = %s/%s" % (s, m, u), c.where)
                n += 1
        # ---- sequence-level loops ----
        SB = ("bits", P(1))
        for op in ("mask", "unmask"):
            b = an.one(chk, "S-maskloop", cfg.bio, "MaskableMut::%s for Seq" % op, name=op, trait="MaskableMut", self_re=r"^seq::Seq<A>$")
            if b:
                n += bool(chunkloop.symbol_loop(chk, cfg, b, "S-maskloop", "MaskableMut::%s for Seq" % op, SB, op, "MaskableMut"))
        C07.default_then(chk, cfg, "Maskable", "to_mask", ("MaskableMut", "mask"), "S-to")
        C07.default_then(chk, cfg, "Maskable", "to_unmask", ("MaskableMut", "unmask"), "S-to")
        # "commutes with complement and reverse" at sequence level rests on the sequence-level complement / reverse loops (C07's rows)
        core.import_rows(chk, cfg, "C07", "props.C07", ("S-rev", "S-comp", "S-to"))
    chk.floor("mask tables and loops", n, 4 * max(1, len(chk.configs)))
    chk.coverage_exhaustive = True
