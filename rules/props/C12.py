"""C12 IUPAC sequences behave as per-position nucleotide sets under |, & and contains."""
import re

import an
import nf
from an import P, F, L, c, cmp, canon, gset, gshow, short
from ctx import oracle
from props import C05
from terms import show, walk

IU = "codec::iupac::Iupac"


def fresh_copy_then(p, N):
    """Seq { bv: post..(with_capacity(..)) } -> (ok, [effects on the fresh vector])"""
    aggs = [t for t in walk(p.raw.ret) if t[0] == "agg" and t[1] == "seq::Seq"]
    if len(aggs) != 1:
        return None
    base, ids = an.peel_posts(aggs[0][4][1])
    nb = N(base)
    evs = [x for x in p.calls if x[3].idx in ids]
    return nb, [(short(x[0]), x[1][1:]) for x in evs]


def run(ctx, chk):
    chk.technique = "one-hot code table vs IUPAC nucleotide sets (exhaustive) + operator/trait correspondence shapes + guard rows for contains"
    chk.explanation = (
        "The 16 Iupac codes are the unions of member bits A=8,C=4,G=2,T=1 of the IUPAC nomenclature sets (gap = empty = 0), so bitwise or/and on "
        "codes are set union/intersection; From<Dna> gives the singleton of each base; the complement row is the set image (tables from MIR, "
        "oracle from the nomenclature). `&SeqSlice & &SeqSlice` is a fresh copy of content(lhs) and-assigned with content(rhs), `|` the same with "
        "or-assign (the operator must correspond to the trait); owned bit_and/bit_or apply BitVec & / | to the two vectors. The three contains "
        "methods return false unless the lengths are equal and otherwise compare (content(self) & content(rhs)) with rhs - the argument, not "
        "self - which is the per-position subset test.")
    chk.not_decided = ["bitvec's op-assign on operands with different alignment (model row BitAndAssign/BitOrAssign)", "result for unequal lengths of | and & (outside the property)"]
    chk.assumptions = ["bitvec model rows", "oracle/alphabets.json IUPAC sets"]
    orc = oracle("alphabets.json")
    n = 0
    for cfg in ctx.configs():
        chk.cfg = cfg.name
        chk.configs.append(cfg.name)
        bio = cfg.bio
        cs = cfg.codecs
        # ---- tables ----
        tables = {}
        for sname in ("iupac::Iupac", "dna::Dna"):
            cd = cs.get(sname)
            r = C05.check_codec(chk, cfg, cd, orc, ctx.decls.get(cd.ty)) if cd else None
            if r:
                tables[cd.ty] = r
        sub = type("CS", (), {"get": lambda self, s: cs.get(s) if s in ("iupac::Iupac", "dna::Dna") else None})()
        C05.oracle_rows(chk, cfg, sub, orc, tables)
        # From<Dna> for Iupac: singleton sets
        iu, dn = cs.get("iupac::Iupac"), cs.get("dna::Dna")
        fb = an.one(chk, "T-conv", bio, "Iupac::from(Dna)", name="from", trait="std::convert::From", self_re=r"^codec::iupac::Iupac$", targ_re=r"^codec::dna::Dna$")
        if fb and iu and dn and iu.ty in tables and dn.ty in tables:
            mb = orc["codecs"][iu.ty]["member_bits"]
            icodes = tables[iu.ty][0]
            for s in dn.symbols:
                paths = dn.eval_fn(fb, [s.term])
                from symtab import result_kind
                k = result_kind(iu, paths)
                chk.ob("T-conv", "Iupac::from(Dna::%s)" % s.name, k[0] == "sym" and icodes.get(k[1]) == mb[s.name],
                       "Iupac::from(Dna::%s) = %s; expected the singleton set {%s} (code %d)" % (s.name, k, s.name, mb[s.name]), fb["span"],
                       sample={"dna": s.name, "iupac": k[1] if k[0] == "sym" else None})
        # ---- operators on borrowed slices ----
        for tr, asg in (("std::ops::BitAnd", "bitand_assign"), ("std::ops::BitOr", "bitor_assign")):
            name = "bitand" if "And" in tr else "bitor"
            b = an.one(chk, "S-bitops", bio, "%s for &SeqSlice" % tr.split("::")[-1], name=name, trait=tr, self_re=r"^&seq::slice::SeqSlice<A>$")
            if not b:
                continue
            paths, _ = an.analyse(cfg, b)
            r = [p for p in paths if p.end == "return"]
            ok = False
            got = "?"
            if len(r) == 1 and not r[0].guards:
                # the copy may be a crate constructor of its own (to_owned(lhs), Seq::from(&lhs.bs): rows of C06 / C04) whose `bv`
                # field then receives the op-assign
                raw = r[0].raw.ret
                Nn = an.norm_of(r[0])
                if isinstance(raw, tuple) and raw[0] == "upd" and len(raw) == 4:
                    base0 = Nn(raw[1])
                    fld, ids2 = an.peel_posts(raw[3])
                    evs2 = [x for x in r[0].calls if x[3].idx in ids2]
                    copy_ok = an.is_call(base0, "<seq::slice::SeqSlice<A> as std::borrow::ToOwned>::to_owned", (P(1),)) or \
                        an.is_call(base0, re.compile(r"^CONV<&bitvec::slice::BitSlice(<[^>]*>)? -> seq::Seq<A>>$"), (("bits", P(1)),))
                    got = "%s then %s" % (show(base0)[:80], [(short(x[0]), [show(a) for a in x[1][1:]]) for x in evs2])
                    ok = bool(copy_ok) and [(short(x[0]), tuple(x[1][1:])) for x in evs2] == [(asg, (("bits", P(2)),))] and \
                        len([x for x in r[0].calls if x[3].idx not in ids2]) == 1
                fc = None if ok else fresh_copy_then(r[0], an.norm_of(r[0]))
                if fc:
                    nb, eff = fc
                    got = "%s then %s" % (show(nb)[:60], [(e, [show(a) for a in ar]) for e, ar in eff])
                    ok = an.is_call(nb, re.compile(r"BitVec(<[^>]*>)?>::with_capacity$|::new$")) and \
                        eff == [("extend_from_bitslice", (("bits", P(1)),)), (asg, (("bits", P(2)),))]
            chk.ob("S-bitops", "%s for &SeqSlice" % tr.split("::")[-1], ok,
                   "must be a copy of content(lhs) followed by %s with content(rhs); got %s" % (asg, got), b["span"], sample=got)
            n += 1
        # ---- owned bit_and / bit_or ----
        for name, op in (("bit_and", "bitand"), ("bit_or", "bitor")):
            b = an.one(chk, "S-bitops", bio, "Seq::" + name, name=name, self_re=r"^seq::Seq<A>$", inherent=True)
            if not b:
                continue
            paths, _ = an.analyse(cfg, b)
            r = [p for p in paths if p.end == "return"]
            ok = False
            got = show(r[0].ret)[:200] if r else "?"
            if len(r) == 1 and not r[0].guards and r[0].ret[0] == "agg" and r[0].ret[1] == "seq::Seq":
                v = r[0].ret[4][1]
                inner = v
                if an.is_call(v, re.compile(r"BitVec(<[^>]*>)?::from_bitslice$")):
                    inner = v[2][0]
                ok = an.is_call(inner, re.compile(r"^bitvec::vec::ops::<impl std::ops::Bit(And|Or) for bitvec::vec::BitVec(<[^>]*>)?>::%s$" % op), (("bits", P(1)), ("bits", P(2))))
            chk.ob("S-bitops", "Seq::" + name, ok, "%s must be content(self) %s content(rhs); got %s" % (name, "&" if op == "bitand" else "|", got), b["span"])
            n += 1
        # ---- contains x3 (G10-G12) ----
        for self_re, what, me, lenme in ((r"^seq::Seq<codec::iupac::Iupac>$", "Seq<Iupac>::contains", ("seqview", P(1)), L(P(1))),
                                         (r"^seq::array::SeqArray<codec::iupac::Iupac, N, W>$", "SeqArray<Iupac>::contains", ("seqview", P(1)), an.N_),
                                         (r"^seq::slice::SeqSlice<codec::iupac::Iupac>$", "SeqSlice<Iupac>::contains", P(1), L(P(1)))):
            b = an.one(chk, "G-contains", bio, what, name="contains", self_re=self_re, inherent=True)
            if not b:
                continue
            paths, _ = an.analyse(cfg, b)
            # an owner may delegate to the slice form on its own content (the slice form has its own row below)
            rr = [p for p in paths if p.end == "return"]
            if what != "SeqSlice<Iupac>::contains" and len(rr) == 1 and not rr[0].guards and \
                    an.is_call(rr[0].ret, re.compile(r"^seq::slice::SeqSlice::<codec::iupac::Iupac>::contains$"), (me, P(2))):
                chk.ob("G-contains/len", what, True, "")
                chk.ob("G-contains", what, True, "", sample="delegates to SeqSlice<Iupac>::contains(content(self), rhs)")
                n += 1
                continue
            res, ag = an.strip_assert_guards(paths)
            falses = [p for p in paths if p.end == "return" and p.ret == ("int", 0, "bool")]
            others = [p for p in paths if p.end == "return" and p not in falses]
            eqg = cmp(lenme, "Eq", L(P(2)))
            # lengths may be compared in bits: for aligned content of this codec bs.len() is BITS * len() (nf.align_cmp, I-align)
            iu_cd = cfg.codecs.get("iupac::Iupac")
            iu_bits = iu_cd.bits if iu_cd else None
            def gl(gs):
                return an.gset_aligned(gs, iu_bits) if iu_bits else gset(gs)
            okf = len(falses) == 1 and gl(res[id(falses[0])]) == {(eqg[0], nf.NEG[eqg[1]])}
            chk.ob("G-contains/len", what, okf, "must return false exactly when the lengths differ; false under %s" % [gshow(gset(res[id(p)])) for p in falses], b["span"])
            okc = False
            got = "?"
            if len(others) == 1 and gl(res[id(others[0])]) == {eqg}:
                t = others[0].ret
                got = show(t)[:240]
                if an.is_call(t, re.compile(r"^<seq::Seq<codec::iupac::Iupac> as std::cmp::PartialEq<&seq::slice::SeqSlice<codec::iupac::Iupac>>>::eq$")):
                    a0, a1 = t[2]
                    okc = an.is_call(a0, re.compile(r"^<&seq::slice::SeqSlice<codec::iupac::Iupac> as std::ops::BitAnd>::bitand$"), (me, P(2))) and a1 == P(2)
                elif what != "SeqSlice<Iupac>::contains" and an.is_call(t, re.compile(r"^seq::slice::SeqSlice::<codec::iupac::Iupac>::contains$"), (me, P(2))):
                    okc = True      # own length test, then the slice form (its row is below)
            chk.ob("G-contains", what, okc, "on equal lengths must compare (content(self) & content(rhs)) with rhs (the argument); got " + got, b["span"], sample=got)
            n += 1
    import core
    for cfg in ctx.configs():
        chk.cfg = cfg.name
        # contains compares the intersection with the argument through Seq == &SeqSlice: C02's equality rows
        core.import_rows(chk, cfg, "C02", "props.C02", ("S-eq", "G-kmer-eq"))
    chk.floor("operator and contains rows", n, 7 * len(chk.configs))
