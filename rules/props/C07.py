"""C07 Reverse, complement and reverse-complement of sequences are exact and involutive."""
import re

import an
import chunkloop
import nf
from an import P, F, BITS, canon, short
from terms import show

COMPLEMENTABLE = ["dna::Dna", "iupac::Iupac", "masked::dna::Dna", "masked::iupac::Iupac", "degenerate::dna::Dna"]


def _owned_of(cfg, ty):
    """the type `<ty as ToOwned>::Owned`: the return type of a crate-local ToOwned impl, else (Clone blanket impl) ty itself"""
    for x in cfg.bio.bodies:
        if x["path"] == "<%s as std::borrow::ToOwned>::to_owned" % ty:
            return x.get("ret_ty")
    return ty


def _to_owned_then(cfg, b, self_ty, owned_ty, first):
    """`let mut o = self.to_owned(); o.first(); o` with Self spelled self_ty and its Owned type spelled owned_ty"""
    paths, _ = an.analyse(cfg, b, policy=an.SeqPolicy())   # a private helper shared by the to_* defaults is inlined
    r = [p for p in paths if p.end == "return"]
    ok = False
    got = ""
    if len(r) == 1 and not r[0].guards:
        base, ids = an.peel_posts(r[0].raw.ret)
        N = an.norm_of(r[0])
        nb = N(base)
        evs = [x for x in r[0].calls if x[3].idx in ids]
        got = "%s then %s" % (show(nb), [x[0] for x in evs])
        to_owned = "<%s as std::borrow::ToOwned>::to_owned" % self_ty
        ok = an.is_call(nb, to_owned, (P(1),)) and len(evs) == 1 and \
            evs[0][0] == "<%s as %s>::%s" % (owned_ty, first[0], first[1]) and \
            len([x for x in r[0].calls if x[0] != to_owned]) == 1
    return ok, got


def default_then(chk, cfg, trait, method, first, rule):
    """trait default `to_x(&self)`: to_owned(self) then x on the copy"""
    bs = [b for b in cfg.bio.bodies if b["path"] == "%s::%s" % (trait, method) and (b.get("impl") or {}).get("trait_default")]
    what = "%s::%s" % (trait, method)
    if len(bs) != 1:
        chk.cannot(rule, what, "trait default not found uniquely")
        return
    b = bs[0]
    ok, got = _to_owned_then(cfg, b, "Self", "<Self as std::borrow::ToOwned>::Owned", first)
    chk.ob(rule, what, ok, "must be `let mut o = self.to_owned(); o.%s(); o` (receiver untouched); got %s" % (first[1], got), b["span"], sample=got)
    # an impl that overrides the default must be the same body, spelled with its own types
    bad = []
    for x in cfg.bio.bodies:
        imp = x.get("impl") or {}
        if x["path"].endswith("::" + method) and imp.get("trait") == trait:
            st = an._strip_lt(imp.get("self_ty") or "")
            ok2, got2 = _to_owned_then(cfg, x, st, _owned_of(cfg, st), first)
            if not ok2:
                bad.append("%s: %s" % (x["path"], got2))
    chk.ob(rule + "/override", what, not bad, "overridden by something other than the default body: %s" % bad, b["span"])


def run(ctx, chk):
    chk.technique = "chunk-loop shape rules (reverse-all then per-chunk reverse; per-chunk decode/complement/encode in place) + symbol involution tables + default-method provenance"
    chk.explanation = (
        "ReverseMut for Seq is reverse(all bits) followed by reverse of each chunk of an exact BITS-wide chunking of the whole content (either "
        "chunk direction: equal under the symbol-alignment invariant), i.e. symbols in opposite order with each symbol intact. ComplementMut for "
        "Seq rewrites every BITS-wide chunk in place as to_bits(comp(unsafe_from_bits(load_le(chunk)))) - the same chunk is loaded and stored. "
        "revcomp is the trait default comp-then-rev (either order accepted: comp is position-wise) and no impl overrides it; to_rev/to_comp/"
        "to_revcomp are the trait defaults to_owned-then-op on the copy (receiver untouched, so slices at any offset go through the aligned "
        "owned copy). At symbol level comp(comp(s)) = s for every symbol of the five complementable codecs (tables from MIR). The "
        "&mut SeqSlice impls are dormant: no safe public API can produce &mut SeqSlice (producer search re-arms them).")
    chk.not_decided = ["bitvec reverse / chunk iteration on word-straddling symbols (model rows)"]
    chk.assumptions = ["bitvec model rows: reverse, chunks_exact_mut, rchunks_exact_mut, remove_alias, load_le, store", "I-align (C06)"]
    nloops = 0
    for cfg in ctx.configs():
        chk.cfg = cfg.name
        chk.configs.append(cfg.name)
        bio = cfg.bio
        SB = ("bits", P(1))
        b = an.one(chk, "S-rev", bio, "ReverseMut for Seq", name="rev", trait="ReverseMut", self_re=r"^seq::Seq<A>$")
        if b:
            nloops += bool(chunkloop.reverse_loop(chk, cfg, b, "S-rev", "ReverseMut for Seq", SB))
        b = an.one(chk, "S-comp", bio, "ComplementMut for Seq", name="comp", trait="ComplementMut", self_re=r"^seq::Seq<A>$")
        if b:
            nloops += bool(chunkloop.symbol_loop(chk, cfg, b, "S-comp", "ComplementMut for Seq", SB, "comp", "ComplementMut"))
        # SeqSlice impls: dormant unless a producer of &mut SeqSlice exists (I-reach)
        prods = chunkloop.mut_slice_producers(cfg)
        chk.ob("I-reach/search", "producers of &mut SeqSlice", True, "", evals=len(cfg.bio.fns) + len(cfg.bio.impls))
        for tr, m in (("ReverseMut", "rev"), ("ComplementMut", "comp")):
            sb = an.methods(bio, m, trait=tr, self_re=r"^seq::slice::SeqSlice<A>$")
            for b2 in sb:
                if prods:
                    if m == "rev":
                        chunkloop.reverse_loop(chk, cfg, b2, "S-rev", tr + " for SeqSlice", SB)
                    else:
                        chunkloop.symbol_loop(chk, cfg, b2, "S-comp", tr + " for SeqSlice", SB, "comp", "ComplementMut")
                else:
                    chk.dormant_rule("S-" + m, tr + " for SeqSlice", "no safe public API yields &mut SeqSlice (no DerefMut/IndexMut/AsMut/BorrowMut, no pub fn returning it)")
        # revcomp default
        bs = [x for x in bio.bodies if x["path"] == "ReverseComplementMut::revcomp"]
        if len(bs) == 1:
            paths, _ = an.analyse(cfg, bs[0], policy=an.NoInline())
            r = [p for p in paths if p.end == "return"]
            seq = [x[0] for x in r[0].calls] if len(r) == 1 else []
            ok = len(r) == 1 and not r[0].guards and sorted(seq) == ["<Self as ComplementMut>::comp", "<Self as ReverseMut>::rev"] and \
                all(x[1] == (P(1),) for x in r[0].calls)
            chk.ob("S-revcomp", "ReverseComplementMut::revcomp", ok, "default revcomp must be comp and rev applied to self, once each; got %s" % seq, bs[0]["span"], sample=seq)
            over = []
            for x in bio.bodies:
                imp = x.get("impl") or {}
                if x["path"].endswith("::revcomp") and imp.get("trait") == "ReverseComplementMut":
                    # an override must be the default body spelled with its own type
                    st = an._strip_lt(imp.get("self_ty") or "")
                    ps, _ = an.analyse(cfg, x, policy=an.NoInline())
                    rr = [p for p in ps if p.end == "return"]
                    sq = [c[0] for c in rr[0].calls] if len(rr) == 1 else []
                    if not (len(ps) == 1 and len(rr) == 1 and not rr[0].guards and sorted(sq) == ["<%s as ComplementMut>::comp" % st, "<%s as ReverseMut>::rev" % st]
                            and all(c[1] == (P(1),) for c in rr[0].calls)):
                        over.append("%s: %s" % (x["path"], sq))
            chk.ob("S-revcomp/override", "ReverseComplementMut::revcomp", not over, "overridden by something other than the default body: %s" % over, bs[0]["span"])
        else:
            chk.cannot("S-revcomp", "ReverseComplementMut::revcomp", "trait default not found")
        default_then(chk, cfg, "Reverse", "to_rev", ("ReverseMut", "rev"), "S-to")
        default_then(chk, cfg, "Complement", "to_comp", ("ComplementMut", "comp"), "S-to")
        default_then(chk, cfg, "ReverseComplement", "to_revcomp", ("ReverseComplementMut", "revcomp"), "S-to")
        # symbol level involution
        cs = cfg.codecs
        for sname in COMPLEMENTABLE:
            c = cs.get(sname)
            if c is None:
                if cfg.all_features or sname in ("dna::Dna", "iupac::Iupac"):
                    chk.cannot("T-involution", sname, "codec not found")
                continue
            comp = c.sym_mut_fn("comp", "ComplementMut")
            if comp is None:
                chk.cannot("T-involution", sname, "no ComplementMut impl", c.where)
                continue
            for s in c.items_order:
                r1 = comp.get(s)
                ok = r1 and r1[0] == "sym" and comp.get(r1[1]) == ("sym", s)
                chk.ob("T-involution", "%s::%s" % (sname, s), bool(ok), "comp(comp(%s)) = %s via %s" % (s, comp.get(r1[1]) if r1 and r1[0] == "sym" else "?", r1), c.where,
                       sample={"sym": s, "comp": r1[1] if r1 and r1[0] == "sym" else None})
    import core
    for cfg in ctx.configs():
        chk.cfg = cfg.name
        # to_rev / to_comp / to_revcomp work on `to_owned()` of the receiver: the copy is C06's constructor rows (whole symbols)
        core.import_rows(chk, cfg, "C06", "props.C06", ("I-align", "I-override"))
    chk.floor("in-place loops established", nloops, 2 * len(chk.configs))
