"""C03 Slicing and indexing select exactly the requested symbols, or refuse.

Range-table rules (appendix D R01-R07, R15, R16), guard row G01, and the
typestate invariant I-transparent for every pointer cast to SeqSlice.
"""
import re

import an
import kstorage
import nf
from an import P, F, L, BITS, add, sub, mul, c, cmp, canon, gset, gshow, opt_kind
from terms import show

INDEX = "std::ops::Index"

# expected symbol-level bounds (lo, hi) per Index form, from core::ops documentation:
#   a..b -> [a,b)   a..=b -> [a,b+1)   ..b -> [0,b)   ..=b -> [0,b+1)   a.. -> [a,len)   .. -> [0,len)   i -> [i,i+1)
def expected_bounds(form):
    r = P(2)
    if form == "Range":
        return F(r, "start"), F(r, "end")
    if form == "RangeInclusive":
        return F(r, "start"), add(F(r, "end"), c(1))
    if form == "RangeTo":
        return c(0), F(r, "end")
    if form == "RangeToInclusive":
        return c(0), add(F(r, "end"), c(1))
    if form == "RangeFrom":
        return F(r, "start"), None
    if form == "RangeFull":
        return c(0), None
    if form == "usize":
        return r, add(r, c(1))
    return None


def bits_range(x, lo, hi):
    """expected normal form of bits [lo*B, hi*B) of bit expression x"""
    lo_b = canon(mul(lo, BITS))
    if hi is None:
        if nf.pkey(nf.poly(lo)) == ():
            return x
        return ("bslice", x, lo_b, None)
    return ("bslice", x, lo_b, canon(mul(hi, BITS)))


def single_return(chk, rule, what, cfg, b, allow_panic=False):
    paths, N = an.analyse(cfg, b)
    rets = [p for p in paths if p.end == "return"]
    bad = [p for p in paths if p.end not in ("return", "panic")]
    if bad or len(rets) != 1:
        chk.cannot(rule, what, "expected one returning path, found %d (%s)" % (len(rets), bad[0].describe() if bad else ""), b["span"])
        return None, paths
    res, ag = an.strip_assert_guards(paths)
    if res[id(rets[0])]:
        chk.cannot(rule, what, "returning path is conditional: " + rets[0].describe(), b["span"])
        return None, paths
    return rets[0], paths


def run(ctx, chk):
    chk.technique = "affine range table over bitvec index calls + transparent-cast typestate + guard row for get"
    chk.explanation = (
        "Each of the seven Index impls of SeqSlice is summarised as the bit range it hands to bitvec's checked Index; "
        "the range must equal [BITS*a, BITS*b) with (a,b) given by core::ops range semantics, as canonical polynomials "
        "over the range endpoints and BITS (so literal widths, off-by-one and start/end mix-ups are excluded for every "
        "codec width at once, and nesting composes because each row is an affine map). The result must be the pointer "
        "cast of exactly that BitSlice (I-transparent), with SeqSlice/Seq/SeqArray/Kmer repr(transparent) over one "
        "non-zero-sized field. get(i) is Some exactly when i < len, nth/get decode Index<usize>, len = bits/BITS, "
        "is_empty = (len == 0); Seq::deref exposes the whole vector, SeqArray::deref exactly [0, N*BITS). "
        "Out-of-range access reaches bitvec's checked Index (no unchecked accessor), whose panic is the refusal.")
    chk.not_decided = ["bitvec's own range arithmetic and bounds check (model row Index/IndexMut)"]
    chk.assumptions = ["bitvec 1.1.1 Index<Range*> on BitSlice/BitVec/BitArray is checked and selects [lo,hi)", "rustc MIR"]
    nforms = 0
    for cfg in ctx.configs():
        chk.cfg = cfg.name
        chk.configs.append(cfg.name)
        bio = cfg.bio
        # ---- R01-R07 ----
        forms = {}
        for b in an.methods(bio, "index", trait=INDEX, self_re=r"^seq::slice::SeqSlice<A>$"):
            ta = (b["impl"].get("trait_args") or ["", ""])[1]
            m = re.match(r"^std::ops::(Range|RangeTo|RangeFrom|RangeFull|RangeInclusive|RangeToInclusive)(<usize>)?$|^(usize)$", ta)
            if not m:
                chk.cannot("R-index", "Index<%s>" % ta, "index form without a row in the range table", b["span"])
                continue
            forms[m.group(1) or m.group(3)] = b
        chk.floor("index forms[%s]" % cfg.name, len(forms), 7)
        for form, b in sorted(forms.items()):
            what = "Index<%s> for SeqSlice" % form
            r, paths = single_return(chk, "R-index", what, cfg, b)
            if r is None:
                continue
            lo, hi = expected_bounds(form)
            want = ("seqof", bits_range(("bits", P(1)), lo, hi))
            # the whole slice may also be returned as the receiver itself (seqof(bits(self)) is self)
            whole = want == ("seqof", ("bits", P(1))) and r.ret == P(1)
            chk.ob("R-index", what, r.ret == want or whole, "returns %s, range table requires %s" % (show(r.ret), show(want)), b["span"],
                   sample={"form": form, "bits": show(r.ret)})
            chk.ob("I-transparent", what, r.ret[0] == "seqof" or whole, "result is not a pointer cast of a BitSlice: " + show(r.ret), b["span"])
            # the only calls allowed on the way are bitvec's checked Index (fail closed on any other accessor)
            for key, args, res, ev in r.calls:
                okc = nf.BITVEC_INDEX.match(key) is not None or key.startswith("std::ops::RangeInclusive::<usize>::")
                chk.ob("R-index/checked", what + " via " + key.split("::")[-1], okc,
                       "uses %s, not bitvec's checked Index" % key, b["span"])
            nforms += 1
        kstorage.unchecked_scan(chk, cfg)
        shadowing(chk, cfg)
        # ---- repr(transparent) ----
        for adt_path in ("seq::slice::SeqSlice", "seq::Seq", "seq::array::SeqArray", "kmer::Kmer"):
            a = bio.adts.get(adt_path)
            if a is None:
                chk.cannot("I-transparent", adt_path, "type not found")
                continue
            fields = a["variants"][0]["fields"]
            nonzst = [f for f in fields if "PhantomData" not in f["ty"]]
            chk.ob("I-transparent", adt_path, a["transparent"] and len(nonzst) == 1,
                   "must be repr(transparent) over exactly one non-zero-sized field (repr=%s, fields=%s)" % (a["repr"], [f["name"] for f in fields]), a["span"])
        # ---- len / is_empty / get / nth ----
        b = an.one(chk, "S-len", bio, "SeqSlice::len", name="len", self_re=r"^seq::slice::SeqSlice<A>$", inherent=True)
        if b:
            r, _ = single_return(chk, "S-len", "SeqSlice::len", cfg, b)
            if r:
                chk.ob("S-len", "SeqSlice::len", r.ret == L(P(1)), "len() = %s, expected bits(self).len() / BITS" % show(r.ret), b["span"], sample=show(r.ret))
        b = an.one(chk, "S-len", bio, "SeqSlice::is_empty", name="is_empty", self_re=r"^seq::slice::SeqSlice<A>$", inherent=True)
        if b:
            r, _ = single_return(chk, "S-len", "SeqSlice::is_empty", cfg, b)
            if r:
                chk.ob("S-len", "SeqSlice::is_empty", nf.cmp_nf(r.ret) == cmp(L(P(1)), "Eq", c(0)), "is_empty() = %s, expected len == 0" % show(r.ret), b["span"])
        b = an.one(chk, "G01", bio, "SeqSlice::get", name="get", self_re=r"^seq::slice::SeqSlice<A>$", inherent=True)
        if b:
            paths, N = an.analyse(cfg, b, policy=an.ForkPolicy())
            res, ag = an.strip_assert_guards(paths)
            somes = [p for p in paths if p.end == "return" and opt_kind(p.ret)[0] == "Some"]
            nones = [p for p in paths if p.end == "return" and opt_kind(p.ret)[0] == "None"]
            chk.ob("G01", "SeqSlice::get", len(somes) == 1 and gset(res[id(somes[0])]) == {cmp(P(2), "Lt", L(P(1)))},
                   "Some under %s, expected exactly {i < len}" % [gshow(gset(res[id(p)])) for p in somes], b["span"])
            chk.ob("G01/none", "SeqSlice::get", len(nones) == 1 and gset(res[id(nones[0])]) == {cmp(P(2), "Ge", L(P(1)))},
                   "None under %s, expected exactly {i >= len}" % [gshow(gset(res[id(p)])) for p in nones], b["span"])
            for p in somes:
                v = opt_kind(p.ret)[1]
                # the item may also be taken through nth(i), whose own row (S-nth) is decode(self[i])
                via_nth = an.is_call(v, re.compile(r"^seq::slice::SeqSlice::<A>::nth$"), (P(1), P(2)))
                chk.ob("G01/item", "SeqSlice::get", via_nth or an.is_decode(v) == ("sym1", P(1), canon(P(2))),
                       "Some(%s), expected decode(self[i])" % show(opt_kind(p.ret)[1]), b["span"])
        b = an.one(chk, "S-nth", bio, "SeqSlice::nth", name="nth", self_re=r"^seq::slice::SeqSlice<A>$", inherent=True)
        if b:
            r, _ = single_return(chk, "S-nth", "SeqSlice::nth", cfg, b)
            if r:
                chk.ob("S-nth", "SeqSlice::nth", an.is_decode(r.ret, nth=False) == ("sym1", P(1), canon(P(2))), "nth(i) = %s, expected decode(self[i])" % show(r.ret), b["span"])
        # decode's byte: From<&SeqSlice> for u8 = load_le::<u8>(bits)
        b = an.one(chk, "S-byte", bio, "u8::from(&SeqSlice)", name="from", trait="std::convert::From", self_re=r"^u8$", targ_re=r"^&seq::slice::SeqSlice<A>$")
        if b:
            r, _ = single_return(chk, "S-byte", "u8::from(&SeqSlice)", cfg, b)
            if r:
                ok = r.ret[0] == "call" and re.search(r"BitField>::load_le::<u8>$", r.ret[1]) and r.ret[2] == (("bits", P(1)),)
                chk.ob("S-byte", "u8::from(&SeqSlice)", bool(ok), "u8::from(slice) = %s, expected load_le::<u8>(bits(slice))" % show(r.ret), b["span"])
        # ---- views: Seq::deref, SeqArray::deref, as_ref ----
        b = an.one(chk, "R-view", bio, "Seq::deref", name="deref", trait="std::ops::Deref", self_re=r"^seq::Seq<A>$")
        if b:
            r, _ = single_return(chk, "R-view", "Seq::deref", cfg, b)
            if r:
                chk.ob("R-view", "Seq::deref", r.ret == ("seqof", ("bits", P(1))), "deref = %s, expected the whole bit vector" % show(r.ret), b["span"])
        b = an.one(chk, "R15", bio, "SeqArray::deref", name="deref", trait="std::ops::Deref", self_re=r"^seq::array::SeqArray<A, N, W>$")
        if b:
            r, _ = single_return(chk, "R15", "SeqArray::deref", cfg, b)
            if r:
                want = ("seqof", ("bslice", F(P(1), "ba"), canon(c(0)), canon(mul(an.N_, BITS))))
                chk.ob("R15", "SeqArray::deref", r.ret == want, "deref = %s, expected %s" % (show(r.ret), show(want)), b["span"], sample=show(r.ret))
        for st, nm in ((r"^seq::Seq<A>$", "Seq"), (r"^seq::array::SeqArray<A, N, W>$", "SeqArray"), (r"^seq::slice::SeqSlice<A>$", "SeqSlice")):
            b = an.one(chk, "R-view", bio, nm + "::as_ref", name="as_ref", trait="std::convert::AsRef", self_re=st)
            if b:
                r, _ = single_return(chk, "R-view", nm + "::as_ref", cfg, b)
                if r:
                    want = P(1) if nm == "SeqSlice" else ("seqview", P(1))
                    chk.ob("R-view", nm + "::as_ref", r.ret == want, "as_ref = %s, expected the deref view of self" % show(r.ret), b["span"])
    import core as _core
    for cfg in ctx.configs():
        chk.cfg = cfg.name
        _core.import_codec_core(chk, cfg)      # the symbols' own tables (C05)
    chk.floor("index rows over all configurations", nforms, 7 * len(chk.configs))


# methods that owners (Seq, SeqArray, Kmer) are allowed to define although SeqSlice has one of the same name, with the row that covers them
SHADOW_OK = {
    ("kmer::Kmer", "len"): "returns K (C08/C09 rows: Kmer::len)",
    ("kmer::Kmer", "is_empty"): "constant false, K > 0",
    ("seq::Seq", "contains"): "C12 G-contains row (Seq<Iupac>)",
    ("seq::array::SeqArray", "contains"): "C12 G-contains row (SeqArray<Iupac>)",
}


def shadowing(chk, cfg):
    """I-shadow: Seq, SeqArray and Kmer reach the slice API through Deref. An inherent method or an Index impl of the same name on
    the owner would silently take precedence in method resolution; every such definition needs a row of its own."""
    bio = cfg.bio
    slice_api = set()
    for b in bio.bodies:
        imp = b.get("impl") or {}
        if b["kind"] == "AssocFn" and not imp.get("trait") and re.match(r"^seq::slice::SeqSlice<", an._strip_lt(imp.get("self_ty") or "")) and an.has_self_receiver(b):
            slice_api.add(b["path"].split("::")[-1])
    chk.floor("SeqSlice inherent API[%s]" % cfg.name, len(slice_api), 5)   # non-vacuity (10 counted)
    n = 0
    for b in bio.bodies:
        imp = b.get("impl") or {}
        if b["kind"] != "AssocFn":
            continue
        st = an._strip_lt(imp.get("self_ty") or "")
        owner = re.match(r"^&?(seq::Seq|seq::array::SeqArray|kmer::Kmer)<", st)
        if not owner:
            continue
        name = b["path"].split("::")[-1]
        if not imp.get("trait") and name in slice_api and an.has_self_receiver(b):
            n += 1
            ok = (owner.group(1), name) in SHADOW_OK
            chk.ob("I-shadow", "%s::%s" % (owner.group(1), name), ok,
                   "defines `%s`, which shadows SeqSlice::%s for every caller going through Deref, and has no row" % (name, name), b["span"], kind="unmodelled-shadowing",
                   sample={"method": "%s::%s" % (owner.group(1), name), "covered_by": SHADOW_OK.get((owner.group(1), name))})
        if imp.get("trait") in ("std::ops::Index", "std::ops::IndexMut"):
            chk.fail("I-shadow", "%s for %s" % (imp.get("trait_ref"), st), "unmodelled-shadowing",
                     "an Index impl on the owner type takes precedence over the checked SeqSlice indexing rows", b["span"])
    if n == 0:
        chk.note("I-shadow: no owner method shadows the slice API")
    # Kmer::len = K, is_empty = false
    for name, want in (("len", ("cg", "K")), ("is_empty", ("int", 0, "bool"))):
        bs = an.methods(bio, name, self_re=r"^kmer::Kmer<A, K, S>$", inherent=True)
        for b in bs:
            paths, _ = an.analyse(cfg, b)
            r = [p for p in paths if p.end == "return"]
            chk.ob("I-shadow/row", "kmer::Kmer::" + name, len(r) == 1 and not r[0].guards and r[0].ret == want, "Kmer::%s = %s" % (name, show(r[0].ret) if r else "?"), b["span"])
