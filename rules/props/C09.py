"""C09 k-mer operations agree with the same operation on the equivalent sequence."""
import re

import an
import chunkloop
import kstorage
import nf
from an import P, F, L, K, BITS, add, sub, mul, c, cmp, canon, gset, gshow, short
from props import C07, C08
from terms import show, walk, I

TO_BA = re.compile(r"KmerStorage>::to_bitarray$|KmerStorage for (usize|u64|u128)>::to_bitarray$")


def base_of_local(p, loc):
    """initial value of a local that was later mutated: peel posts of its final value"""
    v = None
    if loc[0] == "local":
        # a local of the function itself, or of the private helper the code was moved into (inlined frame)
        env0 = p.raw.env if len(loc) == 2 else ((getattr(p.raw, "envs", None) or {}).get(loc[2]) or {})
        v = env0.get(loc[1])
    if v is None:
        return None, []
    base, ids = an.peel_posts(v)
    return an.norm_of(p)(base), ids


def run(ctx, chk):
    chk.technique = "bit-extent rows for rotate/push + canonical-form typestate over every Kmer construction and mutation + reachability of 2-bit-only primitives + guard row for the complement mask"
    chk.explanation = (
        "rotated_left/right rotate exactly storage[0, K*BITS) by (n mod K)*BITS bits and re-pack that extent; pushr = rotated_left(1) then store of "
        "to_bits(base) into [K*BITS-BITS, K*BITS), pushl = rotated_right(1) then store into [0, BITS). I-canon: every construction of a Kmer "
        "value packs an extent inside the content (S::from_bitslice of storage[0,K*BITS), of a slice of exactly K symbols, or of the whole array "
        "of a canonical k-mer after a store inside [0,K*BITS)), the documented exceptions being From<integer>, unsafe_from_seqslice and the "
        "derived Clone/Deserialize; in-place complement masks exactly K*BITS bits, with 1 << m computed only under m < 64 (G22). "
        "I-width2: the 2-bit block reversal (REV_2BIT, KmerStorage::rev_blocks_2) is reached only under a dominating A::BITS == 2 test or from an "
        "impl whose codec is concretely 2-bit; other widths take the generic path reverse(extent) + per-chunk reverse + re-pack (C07 shape). "
        "REV_2BIT itself is checked to be the 2-bit-block reversal of every byte. to_rev/to_comp/to_revcomp are the C07 defaults; the "
        "complement of a Dna k-mer as xor with all-ones agrees with the Dna complement table (code ^ 3).")
    chk.not_decided = ["agreement with the sequence operation beyond these shapes (bitvec rotate_*, store on the bit array)",
                       "KmerStorage::{complement, rev_blocks_2} on u64/u128: unreachable from any public impl today (dormant; the u64/u128 rev_blocks_2 do not write back)"]
    chk.assumptions = ["bitvec model rows rotate_left/rotate_right/store/reverse", "std swap_bytes/to_le_bytes/from_le_bytes"]
    nrows = 0
    ncons = 0
    for cfg in ctx.configs():
        chk.cfg = cfg.name
        chk.configs.append(cfg.name)
        bio = cfg.bio
        kstorage.storage_rows(chk, cfg)
        KM = r"^kmer::Kmer<A, K, S>$"
        KB = canon(mul(K, BITS))
        # ---- R18 rotations ----
        for name, rot in (("rotated_left", "rotate_left"), ("rotated_right", "rotate_right")):
            b = an.one(chk, "R18", bio, "Kmer::" + name, name=name, self_re=KM, inherent=True)
            if not b:
                continue
            paths, _ = an.analyse(cfg, b)
            r = [p for p in paths if p.end == "return"]
            ok = False
            got = "?"
            if len(r) == 1 and not r[0].guards:
                p = r[0]
                x = C08.is_pack(p.ret)
                rc = [y for y in p.calls if short(y[0]) == rot]
                got = "pack %s after %s" % (show(x) if x else show(p.ret)[:80], [(short(y[0]), [show(a) for a in y[1]]) for y in rc])
                if x is not None and x[0] == "bslice" and x[2] == canon(c(0)) and x[3] == KB and len(rc) == 1:
                    arr = x[1]
                    base, ids = base_of_local(p, arr)
                    amount = canon(mul(("bin", "Rem", P(2), K), BITS))
                    ok = base is not None and an.is_call(base, TO_BA, (F(P(1), "bs"),)) and rc[0][1][0] == x and canon(rc[0][1][1]) == amount and \
                        [short(y[0]) for y in p.calls if y[3].idx in ids and short(y[0]) not in ("as_mut", "index_mut", "as_mut_bitslice")] in ([rot], [])
                    # every other effect on the array is a read
                    others = [short(y[0]) for y in p.calls if short(y[0]) in ("rotate_left", "rotate_right", "store", "store_le", "reverse", "set") and y is not rc[0]]
                    ok = ok and not others
            chk.ob("R18", "Kmer::" + name, ok,
                   "must %s storage[0 .. K*BITS] by (n %% K)*BITS and re-pack that extent; got %s" % (rot, got), b["span"], sample=got)
            nrows += 1
        # ---- R19/R20 pushes ----
        for name, rotfn, lo, hi in (("pushr", "rotated_left", sub(mul(K, BITS), BITS), mul(K, BITS)), ("pushl", "rotated_right", c(0), BITS)):
            b = an.one(chk, "R19", bio, "Kmer::" + name, name=name, self_re=KM, inherent=True)
            if not b:
                continue
            paths, _ = an.analyse(cfg, b)
            r = [p for p in paths if p.end == "return"]
            ok = False
            got = "?"
            if len(r) == 1 and not r[0].guards:
                p = r[0]
                x = C08.is_pack(p.ret)
                st = [y for y in p.calls if re.search(r"BitField>::store", y[0])]
                got = "pack %s after %s" % (show(x) if x else "?", [(short(y[0]), [show(a)[:80] for a in y[1]]) for y in st])
                if x is not None and len(st) == 1 and re.search(r"::store(_le)?::<", st[0][0]):
                    arr = x if x[0] == "local" else (x[1] if x[0] == "bslice" and x[2] == canon(c(0)) and x[3] == KB else None)
                    base, ids = base_of_local(p, arr) if arr is not None else (None, [])
                    rotated = ("call", "kmer::Kmer::<A, K, S>::" + rotfn, (P(1), I(1, "u32")), None)
                    okb = base is not None and an.is_call(base, TO_BA, (F(rotated, "bs"),))
                    tgt, val = st[0][1][0], st[0][1][1]
                    okt = tgt == ("bslice", arr, canon(lo), canon(hi))
                    v = val[2] if val[0] == "cast" else val
                    okv = an.is_call(v, "<A as codec::Codec>::to_bits", (P(2),))
                    ok = okb and okt and okv
            chk.ob("R19" if name == "pushr" else "R20", "Kmer::" + name, ok,
                   "must be %s(1), then store to_bits(base) into bits [%s, %s) and re-pack; got %s" % (rotfn, show(canon(lo)), show(canon(hi)), got), b["span"], sample=got)
            nrows += 1
        # ---- I-canon over constructions ----
        ncon = canon_constructions(chk, cfg)
        ncons += min(ncon, 1)           # non-vacuity only: a shared `from_storage` helper legitimately lowers the number of literals
        # ---- complement: R24, G22 ----
        b = an.one(chk, "R24", bio, "ComplementMut for Kmer<Dna>", name="comp", trait="ComplementMut", self_re=r"^kmer::Kmer<codec::dna::Dna, K>$")
        if b:
            paths, _ = an.analyse(cfg, b)
            r = [p for p in paths if p.end == "return"]
            ok = False
            if len(r) == 1 and not r[0].guards:
                cs = [y for y in r[0].calls if short(y[0]) == "complement"]
                ok = len(cs) == 1 and cs[0][1][0] == F(P(1), "bs") and canon(cs[0][1][1]) in (canon(mul(K, c(2))), KB) and \
                    re.search(r"KmerStorage for usize>::complement$|<(usize|S) as kmer::sealed::KmerStorage>::complement$", cs[0][0]) is not None and len(r[0].calls) == 1
            chk.ob("R24", "ComplementMut for Kmer<Dna>", ok, "comp must complement exactly the low K*BITS bits of the storage: %s" % [p.describe()[:200] for p in r], b["span"])
            nrows += 1
        b = an.one(chk, "G22", bio, "usize::complement", name="complement", trait="kmer::sealed::KmerStorage", self_re=r"^usize$")
        if b:
            paths, _ = an.analyse(cfg, b)
            r = [p for p in paths if p.end == "return"]
            me = P(1)
            m = P(2)
            okg = True
            seen_mask = seen_full = False
            for p in r:
                st = dict(p.stores)
                v = p.raw.stores[0][1] if p.raw.stores else None
                shl = [t for t in walk(v)] if v is not None else []
                has_shl = any(t[0] == "bin" and t[1] == "Shl" for t in shl)
                if has_shl:
                    seen_mask = True
                    want = cmp(m, "Lt", c(64))
                    okg = okg and gset(p.guards) == {want}
                    Np = an.norm_of(p)
                    nv = Np(v)
                    MAXW = I(18446744073709551615, "usize")
                    # the low m bits set, for m < 64: (1 << m) - 1, or the complement of the all-ones word shifted up by m
                    masks = (("bin", "Sub", ("bin", "Shl", I(1, "usize"), m), I(1, "usize")),
                             ("un", "Not", ("bin", "Shl", MAXW, m)), ("bin", "BitXor", ("bin", "Shl", MAXW, m), MAXW), ("bin", "BitXor", MAXW, ("bin", "Shl", MAXW, m)))
                    okg = okg and any(nv in (("bin", "BitXor", me, mk), ("bin", "BitXor", mk, me)) for mk in masks)
                else:
                    seen_full = True
                    want = cmp(m, "Ge", c(64))
                    okg = okg and gset(p.guards) == {want}
                    Np = an.norm_of(p)
                    # flipping every bit: x ^ MAX, MAX ^ x or !x
                    full = (("bin", "BitXor", me, I(18446744073709551615, "usize")), ("bin", "BitXor", I(18446744073709551615, "usize"), me), ("un", "Not", me))
                    okg = okg and Np(v) in full
            chk.ob("G22", "usize::complement", okg and seen_mask and seen_full and len(r) == 2,
                   "1 << m must be computed only when m < 64 (xor with all-ones otherwise); paths: %s" % [p.describe()[:160] for p in r], b["span"], kind="guard-mismatch")
            nrows += 1
        # Dna complement table = code ^ 3 (so the xor mask is the symbol complement)
        dn = cfg.codecs.get("dna::Dna")
        if dn:
            comp = dn.sym_mut_fn("comp", "ComplementMut")
            tb = dn.sym_fn("to_bits")
            for s in dn.items_order:
                r1 = comp.get(s)
                chk.ob("T-xor", "dna::Dna::" + s, r1[0] == "sym" and tb[r1[1]][1] == tb[s][1] ^ 3, "comp(%s) = %s, not code ^ 0b11" % (s, r1), dn.where)
        # ---- I-width2 ----
        nw2 = width2(chk, cfg)
        ncons += min(nw2, 1)
        C07.default_then(chk, cfg, "Reverse", "to_rev", ("ReverseMut", "rev"), "S-to")
        C07.default_then(chk, cfg, "Complement", "to_comp", ("ComplementMut", "comp"), "S-to")
        C07.default_then(chk, cfg, "ReverseComplement", "to_revcomp", ("ReverseComplementMut", "revcomp"), "S-to")
    import core
    for cfg in ctx.configs():
        chk.cfg = cfg.name
        # "agree with the same operation on the equivalent sequence": the sequence side is C07's loops and defaults
        core.import_rows(chk, cfg, "C07", "props.C07", ("S-rev", "S-comp", "S-to", "T-involution"))
    # named rows (R18 x2, R19, R20, R24, G22) are counted exactly; the crate-wide scans (constructions, 2-bit primitives) must each
    # match at least once per configuration
    chk.floor("k-mer operation rows", nrows, 6 * len(chk.configs))
    chk.floor("k-mer scans (constructions, 2-bit primitives)", ncons, 2 * len(chk.configs))


EXEMPT = {
    "unsafe_from_seqslice": "documented: 'Create Kmer from sequence without checking length' (caller's obligation)",
    "from": "From<integer>: the caller's integer is taken as the storage (in scope only below 2^(K*BITS))",
    "clone": "derived Clone copies a canonical value",
}


def canon_constructions(chk, cfg):
    bio = cfg.bio
    KB = canon(mul(K, BITS))
    n = 0
    for b in bio.bodies:
        cnt = 0
        for bl in b["blocks"]:
            if bl["cleanup"]:
                continue
            for s in bl["stmts"]:
                if s["k"] == "assign" and s["rv"]["k"] == "aggregate" and s["rv"].get("adt") == "kmer::Kmer":
                    cnt += 1
        if not cnt:
            continue
        imp = b.get("impl") or {}
        what = b["path"]
        nm = what.split("::")[-1]
        if imp.get("derived") or "_serde" in what:
            chk.note("I-canon: %s is derived (copies / deserialises its field)" % what.split(" as ")[-1][:60])
            continue
        if nm in EXEMPT and (nm != "from" or imp.get("trait") == "std::convert::From"):
            chk.note("I-canon exception: %s - %s" % (what, EXEMPT[nm]))
            n += 1
            continue
        if not b["vis"].startswith("Public"):
            # private helper: judged at its (inlining) callers
            continue
        n += 1
    # every public function that yields a Kmer built by packing: judge the packed extent
    judged = 0
    for b in bio.bodies:
        if b["kind"] not in ("AssocFn", "Fn") or not b["vis"].startswith("Public"):
            continue
        imp = b.get("impl") or {}
        if imp.get("derived") or "_serde" in b["path"]:
            continue
        nm = b["path"].split("::")[-1]
        if nm in ("unsafe_from_seqslice",) or (nm == "from" and imp.get("trait") == "std::convert::From" and "kmer::Kmer<" in (imp.get("self_ty") or "")):
            continue
        try:
            paths, _ = an.analyse(cfg, b)
        except Exception:
            continue
        for p in paths:
            if p.end != "return":
                continue
            packs = [t for t in walk(p.ret) if C08.is_pack(t) is not None]
            for lv, v in p.stores:
                packs += [t for t in walk(v) if C08.is_pack(t) is not None]
            for t in packs:
                x = C08.is_pack(t)
                ok, why = extent_ok(p, x, b)
                chk.ob("I-canon", b["path"], ok, "packs %s into a k-mer: %s" % (show(x)[:100], why), b["span"], kind="non-canonical",
                       sample={"ctor": b["path"], "packs": show(x)[:100]})
                judged += 1
    # non-vacuity: construction sites seen, or - when every literal lives in a private helper - packed extents judged at its callers
    return max(n, judged)


def extent_ok(p, x, body=None):
    KB = canon(mul(K, BITS))
    if x[0] == "bits" and x[1][0] == "seqview":
        x = ("bits", x[1][1])
    if body is not None and x[0] == "bits" and isinstance(x[1], tuple) and x[1][0] == "P":
        # a SeqArray<A, K, W> argument has exactly K symbols by its type: SeqArray::deref is [0, N*BITS) (row R15 of C03)
        i = x[1][1]
        ty = body["locals"][i]["ty"] if i < len(body["locals"]) else ""
        if re.match(r"^&*(\w+ )?seq::array::SeqArray<A, K, \w+>$", an._strip_lt(ty).replace("&'_ ", "&")):
            return True, "a SeqArray<A, K, W>: K symbols by type (C03 R15)"
    if x[0] == "bslice" and x[2] == canon(c(0)) and x[3] == KB:
        return True, "extent [0, K*BITS)"
    if x[0] == "bits":
        s = x[1]
        if s[0] == "sslice" and s[3] is not None and nf.pkey(nf.padd(nf.poly(s[3]), nf.poly(s[2]), -1)) == nf.pkey(nf.poly(K)):
            return True, "a slice of exactly K symbols"
        # guarded by len == K on this path
        g = cmp(L(s[1] if s[0] == "seqview" else s), "Eq", K)
        if g in gset(p.guards):
            return True, "guarded by len == K"
        return False, "the content of a sequence whose length is not known to be K on this path"
    if x[0] == "local":
        base, ids = base_of_local(p, x)
        if base is not None and an.is_call(base, TO_BA):
            src = base[2][0]
            # array of a k-mer produced by a canonical operation, modified only by stores inside [0, K*BITS)
            okstores = True
            for y in p.calls:
                if re.search(r"BitField>::store", y[0]):
                    tgt = y[1][0]
                    if not (tgt[0] == "bslice" and tgt[1] == x and tgt[3] is not None and
                            (tgt[3] == KB or tgt[3] == canon(BITS))):
                        okstores = False
            if src[0] == "F" and src[2] == "bs" and okstores:
                return True, "whole array of a canonical k-mer after a store inside [0, K*BITS)"
        return False, "whole storage array of unknown provenance"
    return False, "unrecognised extent"


def width2(chk, cfg):
    """I-width2: 2-bit-only primitives reachable only for 2-bit codecs"""
    bio = cfg.bio
    n = 0
    # the table
    tbl = bio.const_bytes("kmer::REV_2BIT")
    if tbl is None:
        chk.cannot("I-width2/table", "REV_2BIT", "constant not evaluated")
    else:
        def rev2(x):
            return ((x & 3) << 6) | ((x & 12) << 2) | ((x & 48) >> 2) | ((x & 192) >> 6)
        bad = [i for i in range(256) if tbl[i] != rev2(i)]
        chk.ob("I-width2/table", "REV_2BIT", len(tbl) == 256 and not bad, "REV_2BIT is not the 2-bit-block reversal at %s" % bad[:4], evals=256)
        n += 1
    # primitives: bodies that index REV_2BIT, and everything that reaches them through the call graph
    prims = set()
    for b in bio.bodies:
        for bl in b["blocks"]:
            for s in bl["stmts"]:
                if s["k"] == "assign" and "REV_2BIT" in str(s["rv"]):
                    prims.add(b["id"])
    chk.floor("2-bit primitives[%s]" % cfg.name, len(prims), 1)
    by_path = {}
    for b in bio.bodies:
        by_path.setdefault(b["path"], []).append(b)
    # trait methods implemented by a primitive (e.g. KmerStorage::rev_blocks_2): unresolved calls to them count
    def callees(b):
        out = set()
        for bl in b["blocks"]:
            if bl["cleanup"]:
                continue
            t = bl["term"]
            if t["k"] != "call" or "indirect" in t["func"]:
                continue
            f = t["func"]
            if f.get("resolved_local") and f.get("resolved") in by_path:
                for x in by_path[f["resolved"]]:
                    if len(by_path[f["resolved"]]) == 1 or (x.get("impl") or {}).get("self_ty") == f.get("resolved_impl_self"):
                        out.add(x["id"])
            elif f.get("trait"):
                m = f["def"].split("::")[-1]
                for x in bio.bodies:
                    if (x.get("impl") or {}).get("trait") == f["trait"] and x["path"].endswith("::" + m):
                        out.add(x["id"])
        return out
    cg = {b["id"]: callees(b) for b in bio.bodies}
    by_id = {b["id"]: b for b in bio.bodies}
    U = set(prims)          # bodies from which a 2-bit primitive is reached on a path without a width test
    state = {"U": U}

    class Pol(an.SeqPolicy):
        def inline(self, callee, body, depth):
            if body["id"] in state["U"]:
                return False
            return an.SeqPolicy.inline(self, callee, body, depth)

    def is_prim_call(y):
        f = y[3].callee
        if "indirect" in f:
            return False
        if f.get("resolved_local") and f.get("resolved") in by_path:
            return any(x["id"] in state["U"] for x in by_path[f["resolved"]])
        if f.get("trait"):
            m = f["def"].split("::")[-1]
            return any((x.get("impl") or {}).get("trait") == f["trait"] and x["path"].endswith("::" + m) and x["id"] in state["U"] for x in bio.bodies)
        return False
    PRIMCALL = is_prim_call
    done = set()
    boundary = []
    changed = True
    while changed:
        changed = False
        for b in bio.bodies:
            if b["id"] in U or b["id"] in done or b["kind"] not in ("AssocFn", "Fn", "Closure") or not (cg[b["id"]] & U):
                continue
            imp = b.get("impl") or {}
            paths, _ = an.analyse(cfg, b, policy=Pol())
            unguarded = []
            for p in paths:
                if not any(PRIMCALL(y) for y in p.calls):
                    continue
                concrete2 = False
                m = re.search(r"kmer::Kmer<(codec::[a-z_:]+::[A-Za-z]+),", imp.get("self_ty") or "")
                if m:
                    v = bio.const_val("<%s as codec::Codec>::BITS" % m.group(1))
                    concrete2 = v is not None and int(v) == 2
                guarded = any(g[0] == "cmp" and g[2] == "Eq" and nf.pkey(nf.padd(nf.poly(("ac", "<A as codec::Codec>::BITS", ("A",))), nf.poly(I(2, "u8")), -1)) in (g[1], tuple((m_, -c_) for m_, c_ in g[1]))
                              for g in p.guards)
                if not (concrete2 or guarded):
                    unguarded.append(p)
            private = not (b["vis"].startswith("Public") or imp.get("trait")) or imp.get("trait") == "kmer::sealed::KmerStorage"
            done.add(b["id"])
            if unguarded and private:
                U.add(b["id"])      # a helper: its callers are judged instead
                done.discard(b["id"])
                changed = True
                continue
            boundary.append((b, paths))
            chk.ob("I-width2", b["path"], not unguarded,
                   "reaches the 2-bit block reversal for a codec that is not known to be 2 bits wide on this path (guards: %s)" % (
                       gshow(gset(unguarded[0].guards)) if unguarded else ""), b["span"],
                   kind="width-specific-primitive", sample={"caller": b["path"], "primitive_paths_guarded": True})
    for b, paths in boundary:
        imp = b.get("impl") or {}
        hit = False
        for p in paths:
            if not any(PRIMCALL(y) for y in p.calls):
                continue
            hit = True
            # R23: block reversal is followed by the shift that right-aligns the K symbols
            sh = [y for y in p.calls if short(y[0]) == "shiftr"]
            want = canon(sub(("ac", "<S as kmer::sealed::KmerStorage>::BITS", ("S",)), mul(BITS, K)))
            want64 = canon(sub(c(64), mul(BITS, K)))
            wantu = canon(sub(("ac", "<usize as kmer::sealed::KmerStorage>::BITS", ()), mul(BITS, K)))
            okr = len(sh) == 1 and sh[0][1][0] == F(P(1), "bs")
            if okr:
                a = sh[0][1][1]
                a = a[2] if a[0] == "cast" else a
                okr = canon(a) in (want, want64, wantu)
            if not sh:
                # the shift lives in an uninlined private helper on the way to the primitive: judge it there (found through the call, not by name)
                for y in p.calls:
                    f = y[3].callee
                    if PRIMCALL(y) and "indirect" not in f and f.get("resolved_local") and f.get("resolved") in by_path:
                        for hb in by_path[f["resolved"]]:
                            if (hb.get("impl") or {}).get("trait") == "kmer::sealed::KmerStorage":
                                continue
                            hp, _ = an.analyse(cfg, hb, policy=an.NoInline())
                            hr = [q for q in hp if q.end == "return"]
                            if len(hr) == 1:
                                sh = [z for z in hr[0].calls if short(z[0]) == "shiftr"]
                                okr = len(sh) == 1 and sh[0][1][0] == F(P(1), "bs")
                                if okr:
                                    a = sh[0][1][1]
                                    a = a[2] if a[0] == "cast" else a
                                    okr = canon(a) in (want, want64, wantu)
            chk.ob("R23", b["path"], okr, "after rev_blocks_2 the storage must be shifted right by S::BITS - K*BITS; got %s" % [(short(y[0]), [show(a) for a in y[1]]) for y in sh], b["span"])
        if hit:
            n += 1
            # the other paths (non-2-bit) must be the generic reversal on the content extent
            if (imp.get("trait") == "ReverseMut"):
                other = lambda p: not any(PRIMCALL(y) for y in p.calls)
                gen = [p for p in paths if other(p)]
                if gen:
                    arrs = [y for y in gen[0].calls if TO_BA.search(y[0])]
                    if arrs:
                        ext = None
                        for y in gen[0].calls:
                            if short(y[0]) == "reverse" and y[1][0][0] == "bslice":
                                ext = y[1][0]
                                break
                        okx = ext is not None and ext[2] == canon(c(0)) and ext[3] == canon(mul(K, BITS))
                        chk.ob("S-rev/kmer", b["path"], okx, "generic k-mer reversal must operate on storage[0 .. K*BITS]; got %s" % (show(ext) if ext else "?"), b["span"])
                        if okx:
                            chunkloop.reverse_loop(chk, cfg, b, "S-rev/kmer", b["path"], ext, paths_filter=other)
                            st = [v for lv, v in gen[0].stores if lv == F(P(1), "bs")]
                            okp = False
                            for p in gen:
                                if p.end == "return":
                                    for lv, v in p.stores:
                                        if lv == F(P(1), "bs") and an.is_call(v, C08.FROM_BITSLICE, (ext,)):
                                            okp = True
                            chk.ob("S-rev/kmer/pack", b["path"], okp, "the reversed extent must be packed back into the storage", b["span"])
    return n
