"""C05 Codec tables are mutually consistent and match the documented alphabet.

All rules are table rules (DESIGN.md E1): each Codec method is folded over its
complete finite domain (256 byte values / every symbol) and the resulting
tables are compared with each other, with the enum declaration, and with the
independent oracle in oracle/alphabets.json and oracle/ncbi_table1.json.
"""
from ctx import oracle

CODEC_FLOOR = {"all": 7, "def": 4}


def ncbi_codon_table():
    n = oracle("ncbi_table1.json")
    return {n["Base1"][i] + n["Base2"][i] + n["Base3"][i]: n["AAs"][i] for i in range(64)}


def set_of_code(code, member_bits):
    return "".join(sorted(b for b, m in member_bits.items() if code & m))


def check_codec(chk, cfg, c, orc, decl):
    A = c.short
    w = c.where
    if c.problems:
        for p in c.problems:
            chk.cannot("T-items", A, p, w)
        return
    o = orc["codecs"].get(c.ty)
    if o is None:
        chk.cannot("T-oracle", A, "codec has no oracle row (new codec? add its documented alphabet)", w)
        return
    bits = c.bits
    chk.ob("T-bits-decl", A, bits == o["bits"], "BITS=%s, documented %s" % (bits, o["bits"]), w, sample={"BITS": bits})
    to_bits = c.sym_fn("to_bits")
    to_char = c.sym_fn("to_char")
    tfb = c.table_u8("try_from_bits")
    ufb = c.table_u8("unsafe_from_bits")
    tfa = c.table_u8("try_from_ascii")
    ufa = c.table_u8("unsafe_from_ascii")
    for nm, t in (("to_bits", to_bits), ("to_char", to_char), ("try_from_bits", tfb), ("unsafe_from_bits", ufb),
                  ("try_from_ascii", tfa), ("unsafe_from_ascii", ufa)):
        if t is None:
            chk.cannot("T-extract", A + "::" + nm, "method body not found", w)
            return
    # every symbol folds to a constant
    codes = {}
    chars = {}
    for s in c.symbols:
        kb, kc = to_bits[s.name], to_char[s.name]
        okb = kb[0] == "int"
        okc = kc[0] == "int"
        chk.ob("T-fold", "%s::to_bits(%s)" % (A, s.name), okb, "does not fold to a constant: %s" % (kb,), w, kind="cannot-establish")
        chk.ob("T-fold", "%s::to_char(%s)" % (A, s.name), okc, "does not fold to a constant: %s" % (kc,), w, kind="cannot-establish")
        if okb:
            codes[s.name] = kb[1]
        if okc:
            chars[s.name] = kc[1]
    if len(codes) != len(c.symbols) or len(chars) != len(c.symbols):
        return
    # (1) width
    for s, code in codes.items():
        chk.ob("T-width", "%s::%s" % (A, s), code < (1 << bits), "code %d does not fit in %d bits" % (code, bits), w)
    # (2) injectivity
    inv = {}
    for s, code in codes.items():
        chk.ob("T-inj-bits", "%s::%s" % (A, s), code not in inv, "code %d shared with %s" % (code, inv.get(code)), w)
        inv.setdefault(code, s)
    invc = {}
    for s, ch in chars.items():
        chk.ob("T-inj-char", "%s::%s" % (A, s), ch not in invc, "display %r shared with %s" % (chr(ch), invc.get(ch)), w)
        invc.setdefault(ch, s)
    # (3) bits round trip, (4) char round trip
    for s, code in codes.items():
        r = tfb[code]
        chk.ob("T-rt-bits", "%s::%s" % (A, s), r == ("some", s), "try_from_bits(to_bits(%s)=%d) = %s" % (s, code, r), w,
               sample={"sym": s, "code": code})
    for s, ch in chars.items():
        r = tfa[ch] if ch < 256 else ("none",)
        chk.ob("T-rt-char", "%s::%s" % (A, s), r == ("some", s), "try_from_ascii(to_char(%s)=%r) = %s" % (s, chr(ch), r), w)
    # (5) declared alternatives decode to the symbol; accepted codes are exactly codes ∪ alts
    accept = {}
    if c.is_enum:
        if c.derived:
            if decl is None:
                chk.cannot("T-decl", A, "derived codec but enum declaration not found by the token parser", w)
                return
            dv = {v["name"]: v for v in decl["variants"]}
            chk.ob("T-decl-variants", A, [v["name"] for v in decl["variants"]] == [n for n, _ in c.variants],
                   "declaration variants differ from the type-checked enum", w)
            chk.ob("T-decl-bits", A, decl["bits"] is None or decl["bits"] == bits,
                   "#[bits(%s)] but BITS=%s" % (decl["bits"], bits), w)
            for name, discr in c.variants:
                v = dv.get(name)
                if v is None:
                    continue
                chk.ob("T-decl-discr", "%s::%s" % (A, name), v["discr"] == discr and codes.get(name) == discr,
                       "declared %s, enum %s, to_bits %s" % (v["discr"], discr, codes.get(name)), w)
                exp_char = v["display"] if v["display"] is not None else ord(name[0])
                chk.ob("T-decl-display", "%s::%s" % (A, name), chars.get(name) == exp_char,
                       "declared display %r, to_char gives %r" % (chr(exp_char), chr(chars.get(name, 0))), w)
                accept[discr] = name
                for a in v["alts"]:
                    chk.ob("T-alt", "%s::%s alt %d" % (A, name, a), tfb[a] == ("some", name) if 0 <= a < 256 else False,
                           "try_from_bits(%d) = %s, declared alternative of %s" % (a, tfb[a] if a < 256 else None, name), w)
                    if cfg is not None:
                        # library codecs: an alternative that does not fit the width could never be read back from packed storage
                        # (generated witness declarations, cfg None, deliberately include such alternatives: the width follows the discriminants)
                        chk.ob("T-alt-width", "%s::%s alt %d" % (A, name, a), a < (1 << bits),
                               "alternative code %d does not fit in %d bits" % (a, bits), w)
                    accept[a] = name
        else:
            for name, discr in c.variants:
                accept[discr] = name
        # items() = variants in declaration order (hand-written codecs: same set)
        names = [n for n, _ in c.variants]
        if c.derived:
            chk.ob("T-items", A, c.items_order == names, "items() = %s, declaration order %s" % (c.items_order, names), w)
        else:
            chk.ob("T-items", A, sorted(c.items_order) == sorted(names) and len(set(c.items_order)) == len(names),
                   "items() = %s, variants %s" % (c.items_order, names), w)
        for b in range(256):
            r = tfb[b]
            if b in accept:
                chk.ob("T-accept-bits", "%s bits %d" % (A, b), r == ("some", accept[b]), "try_from_bits(%d) = %s, expected %s" % (b, r, accept[b]), w)
            else:
                chk.ob("T-refuse-bits", "%s bits %d" % (A, b), r == ("none",), "try_from_bits(%d) = %s, not a documented code" % (b, r), w)
    else:
        # identity newtype (text::Dna): documented as a literal interpretation of bytes; the
        # bit decoder must at least accept the codes of its symbols (interpretation note, DESIGN.md C05)
        chk.note("%s is a byte newtype: try_from_bits is required to accept the codes of items(), "
                 "refusal of other patterns is not required (documented identity codec)" % A)
        for b in range(256):
            if tfb[b][0] == "some":
                accept[b] = tfb[b][1]
        exp_items = ["%s(%d)" % (c.ty.split("::")[-1], ord(ch)) for ch in o["display"]]
        chk.ob("T-items", A, c.items_order == exp_items, "items() = %s, documented %s" % (c.items_order, exp_items), w)
    # (6) ASCII acceptance set = documented alphabet exactly; each letter to the right symbol
    alphabet = set(ord(ch) for ch in o["alphabet"])
    for b in range(256):
        r = tfa[b]
        if b in alphabet:
            chk.ob("T-accept-ascii", "%s byte %r" % (A, chr(b)), r[0] == "some", "try_from_ascii(%r) = %s, letter is in the documented alphabet" % (chr(b), r), w)
        else:
            chk.ob("T-refuse-ascii", "%s byte 0x%02x" % (A, b), r == ("none",), "try_from_ascii(0x%02x %r) = %s, not in the documented alphabet %r" % (b, chr(b), r, o["alphabet"]), w)
    disp = set(chars.values())
    chk.ob("T-display-set", A, disp == set(ord(ch) for ch in o["display"]),
           "display characters %r, documented %r" % ("".join(sorted(map(chr, disp))), o["display"]), w)
    # (7) unchecked decoders agree with the fallible ones on their success sets and never panic there
    for b in range(256):
        if tfb[b][0] == "some":
            r = ufb[b]
            chk.ob("T-unsafe-bits", "%s bits %d" % (A, b), r == ("sym", tfb[b][1]),
                   "unsafe_from_bits(%d) = %s but try_from_bits gives %s" % (b, _k(r), tfb[b][1]), w,
                   kind="panic" if r[0] == "panic" else "mismatch")
        if tfa[b][0] == "some":
            r = ufa[b]
            chk.ob("T-unsafe-ascii", "%s byte %r" % (A, chr(b)), r == ("sym", tfa[b][1]),
                   "unsafe_from_ascii(%r) = %s but try_from_ascii gives %s" % (chr(b), _k(r), tfa[b][1]), w,
                   kind="panic" if r[0] == "panic" else "mismatch")
    return codes, chars, accept


def _k(r):
    if r[0] == "panic":
        p = r[1]
        return "panic(%s)" % (p[1] if isinstance(p, tuple) and len(p) > 1 and p[1] else p[0] if isinstance(p, tuple) else p)
    return str(r)


def oracle_rows(chk, cfg, cs, orc, tables):
    comp_base = orc["complement"]
    sets = orc["iupac_sets"]
    # dna: A,C,G,T = 0..3 and complement pairs
    c = cs.get("dna::Dna")
    if c and c.ty in tables:
        codes, chars, _ = tables[c.ty]
        for s, v in orc["codecs"][c.ty]["codes"].items():
            chk.ob("O-dna-codes", "dna::Dna::" + s, codes.get(s) == v, "code %s, documented %d" % (codes.get(s), v), c.where)
        comp = c.sym_mut_fn("comp", "ComplementMut")
        for s in codes:
            chk.ob("O-comp", "dna::Dna::" + s, comp and comp.get(s) == ("sym", comp_base[s]), "comp(%s) = %s" % (s, comp and comp.get(s)), c.where)
    # iupac-like codecs: code = union of member bits, complement = image of the set
    for short in ("iupac::Iupac", "masked::iupac::Iupac"):
        c = cs.get(short)
        if not c or c.ty not in tables:
            continue
        codes, chars, _ = tables[c.ty]
        o = orc["codecs"][c.ty]
        mb = o["member_bits"]
        flag = o.get("mask_flag", 0)
        by_code = {v: k for k, v in codes.items()}
        comp = c.sym_mut_fn("comp", "ComplementMut")
        for s, code in codes.items():
            ch = chr(chars[s])
            masked = bool(code & flag)
            letter = ch.upper() if ch.isalpha() else ("-" if ch in "-." else ch)
            exp_set = sets.get(letter)
            if exp_set is None:
                chk.fail("O-iupac-sets", "%s::%s" % (short, s), "mismatch", "display %r is not an IUPAC letter" % ch, c.where)
                continue
            got = set_of_code(code & ~flag, mb)
            chk.ob("O-iupac-sets", "%s::%s" % (short, s), got == "".join(sorted(exp_set)),
                   "code %s denotes {%s}, IUPAC %r is {%s}" % (bin(code), got, letter, exp_set), c.where,
                   sample={"sym": s, "code": code, "set": got})
            if flag:
                chk.ob("O-mask-case", "%s::%s" % (short, s), (ch.islower() or ch == ".") == masked,
                       "display %r vs mask flag %s" % (ch, masked), c.where)
            # complement
            if comp is None:
                chk.cannot("O-comp", "%s::%s" % (short, s), "no ComplementMut impl found", c.where)
                continue
            r = comp.get(s)
            exp_code = 0
            for b in got:
                exp_code |= mb[comp_base[b]]
            exp_code |= code & flag
            chk.ob("O-comp", "%s::%s" % (short, s), r[0] == "sym" and codes.get(r[1]) == exp_code,
                   "comp(%s) = %s, expected the symbol with code %s" % (s, _k(r), bin(exp_code)), c.where)
    # masked dna
    c = cs.get("masked::dna::Dna")
    if c and c.ty in tables:
        codes, chars, _ = tables[c.ty]
        o = orc["codecs"][c.ty]
        oh = o["onehot"]
        comp = c.sym_mut_fn("comp", "ComplementMut")
        by_char = {chr(v): k for k, v in chars.items()}
        for b, v in oh.items():
            s = by_char.get(b)
            chk.ob("O-mdna-codes", "masked::dna::Dna::%s" % b, s is not None and codes[s] == v, "code of %r is %s, documented %s" % (b, s and codes[s], v), c.where)
            sm = by_char.get(b.lower())
            chk.ob("O-mdna-codes", "masked::dna::Dna::%s" % b.lower(), sm is not None and codes[sm] == (v ^ 0xF),
                   "code of %r is %s, documented inverted pattern %s" % (b.lower(), sm and codes[sm], v ^ 0xF), c.where)
        for ch, v in (("N", 0), ("n", 15)):
            s = by_char.get(ch)
            chk.ob("O-mdna-codes", "masked::dna::Dna::%s" % ch, s is not None and codes[s] == v, "code of %r" % ch, c.where)
        if comp:
            for b in "ACGT":
                for f in (str.upper, str.lower):
                    s = by_char.get(f(b))
                    e = by_char.get(f(comp_base[b]))
                    chk.ob("O-comp", "masked::dna::Dna::%s" % f(b), s and comp.get(s) == ("sym", e), "comp(%s) = %s, expected %s" % (s, comp.get(s), e), c.where)
            for ch in "Nn-.":
                s = by_char.get(ch)
                chk.ob("O-comp", "masked::dna::Dna::%s" % ch, s and comp.get(s) == ("sym", s), "comp(%r) must be itself, got %s" % (ch, comp.get(s)), c.where)
        else:
            chk.cannot("O-comp", "masked::dna::Dna", "no ComplementMut impl found", c.where)
    # degenerate
    c = cs.get("degenerate::dna::Dna")
    if c and c.ty in tables:
        codes, chars, _ = tables[c.ty]
        o = orc["codecs"][c.ty]
        tfa = c.table_u8("try_from_ascii")
        for s, v in o["codes"].items():
            chk.ob("O-degenerate", "degenerate::dna::Dna::" + s, codes.get(s) == v, "code %s documented %s" % (codes.get(s), v), c.where)
        for s, letters in o["classes"].items():
            for ch in letters:
                chk.ob("O-degenerate", "degenerate::dna::Dna byte %r" % ch, tfa[ord(ch)] == ("some", s), "try_from_ascii(%r) = %s, expected %s" % (ch, tfa[ord(ch)], s), c.where)
        comp = c.sym_mut_fn("comp", "ComplementMut")
        for s in codes:
            chk.ob("O-comp", "degenerate::dna::Dna::" + s, comp and comp.get(s) == ("sym", s), "strong/weak classes are closed under complement: comp(%s) = %s" % (s, comp and comp.get(s)), c.where)
    # amino = codons (NCBI table 1) under the documented packing
    amino_ncbi(chk, cfg, cs, orc, tables)


def amino_ncbi(chk, cfg, cs, orc, tables, rule="O-ncbi"):
    c = cs.get("amino::Amino")
    d = cs.get("dna::Dna")
    if not c or not d or c.ty not in tables or d.ty not in tables:
        return 0
    codes, chars, accept = tables[c.ty]
    dcodes = tables[d.ty][0]
    dbits = d.bits
    table = ncbi_codon_table()
    ufb = c.table_u8("unsafe_from_bits")
    n = 0
    for codon, aa in sorted(table.items()):
        packed = 0
        ok = True
        for i, b in enumerate(codon):
            if b not in dcodes:
                ok = False
                break
            packed |= dcodes[b] << (i * dbits)
        if not ok:
            chk.cannot(rule, "codon " + codon, "Dna codec lacks base", c.where)
            continue
        s = accept.get(packed)
        got = chr(chars[s]) if s in chars else None
        chk.ob(rule, "codon " + codon, got == aa, "codon %s packs to %s which decodes to %s (%s), NCBI table 1 says %r" % (
            codon, format(packed, "06b"), s, got, aa), c.where, sample={"codon": codon, "packed": packed, "amino": got})
        r = ufb[packed]
        chk.ob(rule + "-unsafe", "codon " + codon, r[0] == "sym" and chr(chars.get(r[1], 0)) == aa,
               "unsafe_from_bits(%d) = %s, NCBI %r" % (packed, _k(r), aa), c.where)
        n += 1
    return n


def run(ctx, chk):
    chk.technique = "exhaustive table extraction by constant propagation over MIR + relational table checks against declaration and oracle"
    chk.explanation = (
        "Every Codec method of every built-in codec (7 with all features, 4 by default) is folded over its complete "
        "domain (256 byte values for the four decoders, every symbol for to_bits/to_char/comp) by constant propagation "
        "over the type-checked MIR, in each build configuration (debug assertions on and, in the thorough tier, off). "
        "The extracted tables are checked for: code fits BITS; to_bits and to_char injective; try_from_bits(to_bits(s)) "
        "= s; every declared #[alt] decodes to its symbol; try_from_bits accepts exactly codes and alts; "
        "try_from_ascii accepts exactly the documented alphabet and inverts to_char; unsafe decoders agree with the "
        "fallible ones on their success sets and do not panic there; items() is the variant list; declared "
        "discriminants/display/bits equal what the derive produced; and against the oracle: DNA codes 0..3, IUPAC "
        "codes are unions of member bits, complements are set images of A-T/C-G, amino codes are the NCBI table 1 codons.")
    chk.not_decided = ["nothing at symbol level: the domains are finite and enumerated completely; behaviour of the "
                       "tables inside sequences is the subject of C01/C04/C07"]
    chk.assumptions = ["rustc MIR construction and constant evaluation", "oracle/alphabets.json and oracle/ncbi_table1.json transcribe the documentation / NCBI listing correctly"]
    orc = oracle("alphabets.json")
    for cfg in ctx.configs():
        chk.cfg = cfg.name
        chk.configs.append(cfg.name)
        cs = cfg.codecs
        n = len(list(cs))
        chk.floor("codecs[%s]" % cfg.name, n, CODEC_FLOOR["all" if cfg.all_features else "def"])
        tables = {}
        for c in cs:
            decl = ctx.decls.get(c.ty)
            r = check_codec(chk, cfg, c, orc, decl)
            if r:
                tables[c.ty] = r
        oracle_rows(chk, cfg, cs, orc, tables)
        chk.count("codec_methods_folded[%s]" % cfg.name, n * 6)
        chk.count("engine_paths[%s]" % cfg.name, cfg.eng.stats["paths"])
    chk.coverage_exhaustive = True
