"""C17 A derived codec implements exactly what its enum declaration says."""
import math
import random
import re

import declparse
import symtab
import terms
import witness
from ctx import oracle
from props import C05

DERIVES = "#[derive(Clone, Copy, Debug, PartialEq, Eq, Hash, Codec)]\n#[repr(u8)]"
NAMES = ["Alpha", "Beta", "Cyto", "Delta", "Eps", "Phi", "Gamma", "Hex", "Iota", "Jot", "Kappa", "Lam", "Mu", "Nu", "Omi", "Pi", "Qu", "Rho", "Sig", "Tau",
         "Ups", "Vee", "Wye", "Xi", "Yot", "Zeta", "aa", "bb", "cc", "dd", "ee", "ff", "gg", "hh", "ii", "jj", "kk", "ll", "mm", "nn"]


def fmt(v, how):
    if how == "bin":
        return "0b" + format(v, "b")
    if how == "hex":
        return "0x" + format(v, "X")
    if how == "byte" and 33 <= v <= 126 and chr(v) not in "'\\":
        return "b'%s'" % chr(v)
    return str(v)


def min_bits(maxd):
    return max(0, math.ceil(math.log2(maxd + 1))) if maxd > 0 else 0


def render(spec):
    out = [DERIVES]
    if spec.get("bits") is not None:
        out.append("#[bits(%d)]" % spec["bits"])
    out.append("pub enum %s {" % spec["name"])
    for v in spec["variants"]:
        attrs = []
        if v.get("display") is not None:
            attrs.append("    #[display('%s')]" % v["display"])
        if v.get("alts"):
            af = v.get("fmt", "dec") if v.get("fmt") != "byte" else "dec"
            groups = [v["alts"]]
            if v.get("alt_split") and len(v["alts"]) > 1:
                # the same alternatives spread over several #[alt] attributes
                k = v["alt_split"] % (len(v["alts"]) - 1) + 1
                groups = [v["alts"][:k], v["alts"][k:]]
            for g in groups:
                attrs.append("    #[alt(%s)]" % ", ".join(fmt(a, af) for a in g))
        if v.get("attrs_reversed"):
            attrs.reverse()
        out += attrs
        out.append("    %s = %s," % (v["name"], fmt(v["discr"], v.get("fmt", "dec"))))
    out.append("}")
    eb = spec["bits"] if spec.get("bits") is not None else min_bits(max(v["discr"] for v in spec["variants"]))
    out.append("const _: () = assert!(<%s as Codec>::BITS == %d);" % (spec["name"], eb))
    return "\n".join(out) + "\n"


def fixed_family():
    fam = []

    def E(name, discrs, bits=None, fmts=None, displays=None, alts=None):
        vs = []
        for i, d in enumerate(discrs):
            v = {"name": NAMES[i], "discr": d, "fmt": (fmts or ["dec"])[i % len(fmts or ["dec"])]}
            if displays and displays.get(i) is not None:
                v["display"] = displays[i]
            if alts and alts.get(i):
                v["alts"] = alts[i]
            vs.append(v)
        fam.append({"name": name, "bits": bits, "variants": vs})
    E("W00", [0, 1])                                         # 1 bit
    E("W01", [0, 1, 2])                                      # max 2 -> 2 bits
    E("W02", [0, 1, 2, 3], fmts=["bin"])                     # max 3 -> 2 bits
    E("W03", [0, 1, 2, 3, 4], fmts=["hex"])                  # max 4 -> 3 bits
    E("W04", [7, 3, 1, 0], fmts=["bin", "dec"])              # max 7 -> 3 bits, unordered
    E("W05", [8, 1], fmts=["dec"])                           # max 8 -> 4 bits
    E("W06", [15, 0, 9], fmts=["hex"])                       # max 15 -> 4
    E("W07", [16, 2, 3], )                                   # max 16 -> 5
    E("W08", [127, 1, 64], fmts=["dec", "bin"])              # max 127 -> 7
    E("W09", [128, 5], fmts=["hex"])                         # max 128 -> 8
    E("W10", [255, 0, 17], fmts=["dec"])                     # max 255 -> 8 (u8 boundary)
    E("W11", [255, 254], bits=8, fmts=["hex"])               # explicit 8
    E("W12", [0, 1, 2, 3], bits=4, fmts=["bin"])             # wider than needed
    E("W13", [1, 2], bits=8)                                 # much wider
    E("W14", [0, 1, 2, 3], bits=2, displays={0: "-", 1: "*", 2: "x", 3: "."})
    E("W15", [0, 1, 2], bits=3, alts={0: [4, 5], 2: [7]}, fmts=["bin"])
    E("W16", [0b0110, 0b1001, 0b1111, 0], bits=4, alts={1: [0b0001, 0b1000]}, displays={3: "-"}, fmts=["bin"])
    E("W17", [65, 67, 71, 84], fmts=["byte"])                # byte literals -> 7 bits
    E("W18", [65, 67, 71, 84, 78], bits=8, fmts=["byte"], displays={4: "n"})
    E("W19", [31, 30, 29, 28, 27, 1], fmts=["dec", "hex", "bin"])   # 5 bits
    E("W20", [32, 0])                                        # 6 bits
    E("W21", [63, 62, 1, 0], alts={2: [2, 3, 4]}, fmts=["bin"])
    E("W22", [64, 1], displays={0: "Z", 1: "z"})             # 7 bits
    E("W23", list(range(0, 40)), bits=6, fmts=["dec"], displays={i: c for i, c in enumerate("ABCDEFGHIJKLMNOPQRSTUVWXYZabcdefghijklmn")})
    # attribute-shape variants: alternatives spread over several #[alt] attributes, attributes in either order
    E("W24", [0, 1, 2], bits=4, alts={0: [8, 9, 10], 1: [12, 13]}, fmts=["bin"])
    fam[-1]["variants"][0]["alt_split"] = 1
    fam[-1]["variants"][1]["alt_split"] = 0
    E("W25", [3, 5, 6, 0], bits=4, alts={1: [9, 10, 11, 12], 3: [15]}, displays={1: "x", 3: "-"}, fmts=["hex"])
    fam[-1]["variants"][1]["alt_split"] = 2
    fam[-1]["variants"][1]["attrs_reversed"] = True
    fam[-1]["variants"][3]["attrs_reversed"] = True
    # the width follows the largest *discriminant*: an alternative code above it must neither widen the codec nor be rejected
    E("W26", [0, 1, 2, 3], alts={0: [7]}, fmts=["bin"])                   # no #[bits]: 2 bits although an alt is 0b111
    E("W27", [0, 1, 2, 3], bits=2, alts={3: [6, 5]}, fmts=["bin"])        # declared minimal width with wider alts
    E("W28", [1, 0], alts={1: [2, 255]}, fmts=["dec"])                    # 1 bit, alts up to 255
    return fam


def random_family(seed, n):
    rnd = random.Random(seed)
    fam = []
    for k in range(n):
        nv = rnd.randrange(2, 41)
        maxd = rnd.choice([1, 2, 3, 4, 7, 8, 15, 16, 31, 32, 63, 64, 127, 128, 200, 255, rnd.randrange(1, 256)])
        maxd = max(maxd, nv - 1)
        pool = list(range(0, maxd))
        rnd.shuffle(pool)
        discrs = [maxd] + pool[:nv - 1]
        rnd.shuffle(discrs)
        mb = max(1, min_bits(maxd))
        bits = rnd.choice([None, None, mb, min(8, mb + 1), 8])
        width = bits if bits is not None else mb
        free = [x for x in range(0, 1 << width) if x not in discrs]
        rnd.shuffle(free)
        chars = list("ABCDEFGHIJKLMNOPQRSTUVWXYZabcdefghijklmnopqrstuvwxyz0123456789-*+.?!")
        rnd.shuffle(chars)
        vs = []
        used_chars = set()
        for i, d in enumerate(discrs):
            v = {"name": NAMES[i], "discr": d, "fmt": rnd.choice(["dec", "bin", "hex", "byte"])}
            default = NAMES[i][0]
            if default in used_chars or rnd.random() < 0.3:
                c = next(ch for ch in chars if ch not in used_chars and ch != "'")
                v["display"] = c
                used_chars.add(c)
            else:
                used_chars.add(default)
            if free and rnd.random() < 0.25:
                na = rnd.randrange(1, min(4, len(free)) + 1)
                v["alts"] = [free.pop() for _ in range(na)]
                if rnd.random() < 0.5:
                    v["alt_split"] = rnd.randrange(0, 4)
            if rnd.random() < 0.3:
                v["attrs_reversed"] = True
            vs.append(v)
        fam.append({"name": "R%02d" % k, "bits": bits, "variants": vs})
    return fam


MALFORMED = [
    ("too_small_bits", "#[bits(1)]\npub enum M { A = 0, B = 1, C = 2 }", "#[bits(2)]\npub enum M { A = 0, B = 1, C = 2 }"),
    ("too_small_bits_255", "#[bits(7)]\npub enum M { A = 0, B = 255 }", "#[bits(8)]\npub enum M { A = 0, B = 255 }"),
    ("missing_discriminant", "pub enum M { A = 0, B }", "pub enum M { A = 0, B = 1 }"),
    ("string_discriminant", "pub enum M { A = \"a\", B = 1 }", "pub enum M { A = 0, B = 1 }"),
    ("expr_discriminant", "pub enum M { A = 1 << 2, B = 1 }", "pub enum M { A = 4, B = 1 }"),
    ("struct_input", "pub struct M { a: u8 }", "pub enum M { A = 0, B = 1 }"),
]


def doctest_harness():
    out = ["//! generated witness harness for malformed Codec derives (compile_fail / no_run only)\n"]
    names = []
    for nm, bad, good in MALFORMED:
        for twin in (False, True):
            fn = "%s_%s" % (nm, "twin" if twin else "bad")
            decl = good if twin else bad
            head = "#[derive(Clone, Copy, Debug, PartialEq, Eq, Hash, Codec)]"
            body = "\n".join("/// " + l for l in (head + "\n" + decl).splitlines())
            out.append("/// ```%s\n/// use bio_seq::prelude::*;\n%s\n/// fn main() {}\n/// ```\npub fn %s() {}\n" % ("no_run" if twin else "compile_fail", body, fn))
            names.append((fn, twin, nm))
    return "\n".join(out), names


def interval_rule(chk, cfg):
    """every narrow-integer (u8/u16) arithmetic in the derive crate must be overflow-free for all values of its inputs"""
    RANGE = {"u8": (0, 255), "u16": (0, 65535), "i8": (-128, 127), "i16": (-32768, 32767)}
    n = 0
    for b in cfg.derive.bodies:
        defs = {}
        for bl in b["blocks"]:
            for s in bl["stmts"]:
                if s["k"] == "assign" and not s["p"]["proj"]:
                    defs.setdefault(s["p"]["l"], []).append(("rv", s["rv"]))
            t = bl["term"]
            if t["k"] == "call" and not t["dest"]["proj"]:
                defs.setdefault(t["dest"]["l"], []).append(("call", t))

        def ival(op, depth=0):
            if op["k"] == "const":
                if op.get("val") is not None:
                    v = int(op["val"])
                    return (v, v)
                return RANGE.get(op["ty"])
            if op["k"] in ("copy", "move") and not op["p"]["proj"]:
                l = op["p"]["l"]
                ty = b["locals"][l]["ty"]
                ds = defs.get(l, [])
                if len(ds) == 1 and depth < 6:
                    kind, d = ds[0]
                    if kind == "rv" and d["k"] == "use":
                        return ival(d["op"], depth + 1)
                    if kind == "rv" and d["k"] == "cast" and d["ck"] == "IntToInt":
                        r = ival(d["op"], depth + 1)
                        full = RANGE.get(ty)
                        if r and (full is None or (full[0] <= r[0] and r[1] <= full[1])):
                            return r
                    if kind == "call" and (d["func"].get("def") in ("std::convert::From::from", "std::convert::Into::into")):
                        src = d["func"]["args"][1] if d["func"]["def"].endswith("from") else d["func"]["args"][0]
                        if src in RANGE or src in ("u32", "usize", "u64"):
                            return ival(d["args"][0], depth + 1)
                return RANGE.get(ty)
            return None
        for bl in b["blocks"]:
            if bl["cleanup"]:
                continue
            for s in bl["stmts"]:
                if s["k"] != "assign" or s["rv"]["k"] != "binop":
                    continue
                rv = s["rv"]
                base = rv["op"].replace("WithOverflow", "")
                if base not in ("Add", "Sub", "Mul") or rv.get("aty") not in RANGE:
                    continue
                a, c = ival(rv["a"]), ival(rv["b"])
                if a is None or c is None:
                    continue
                if base == "Add":
                    lo, hi = a[0] + c[0], a[1] + c[1]
                elif base == "Sub":
                    lo, hi = a[0] - c[1], a[1] - c[0]
                else:
                    prods = [x * y for x in a for y in c]
                    lo, hi = min(prods), max(prods)
                full = RANGE[rv["aty"]]
                n += 1
                chk.ob("D-overflow", "%s: %s on %s" % (b["path"], base, rv["aty"]), full[0] <= lo and hi <= full[1],
                       "%s of operands in %s and %s is computed in %s and can leave its range (result range [%d, %d]); "
                       "a largest discriminant at the type boundary overflows" % (base, list(a), list(c), rv["aty"], lo, hi), s.get("line"), kind="overflow",
                       sample={"fn": b["path"], "op": base, "type": rv["aty"], "range": [lo, hi]})
    return n


def check_family(chk, ctx, fam, cratename, release, cfgname):
    src = "#![allow(dead_code)]\nuse bio_seq::prelude::*;\n\n" + "\n".join(render(s) for s in fam)
    ok, crate, diags, err = witness.build(cratename, {"src/lib.rs": src}, release=release, debug_assertions=not release)
    chk.cfg = cfgname
    lines = src.splitlines()
    if not ok:
        # map diagnostics to declarations
        blamed = set()
        for d in diags:
            for f, ln in d["spans"]:
                if f.endswith("src/lib.rs"):
                    for i in range(ln - 1, -1, -1):
                        m = re.match(r"pub enum (\w+)", lines[i]) if i < len(lines) else None
                        if m:
                            blamed.add((m.group(1), d["message"]))
                            break
                    break
        for s in fam:
            msgs = [m for n, m in blamed if n == s["name"]]
            chk.ob("W-derive/builds", s["name"], not msgs,
                   "well-formed declaration (max discriminant %d, bits %s) is rejected or mis-sized by the derive: %s" % (
                       max(v["discr"] for v in s["variants"]), s.get("bits"), msgs[:2]), kind="derive-rejects-valid")
        if not blamed:
            chk.fail("W-derive/builds", cratename, "cannot-establish", "witness crate does not build: " + err[-400:])
        return 0
    decls = {d["name"]: d for d in declparse.parse_codec_enums(src)}
    eng = terms.Engine([crate])
    cs = symtab.CodecSet(None, eng, crate=crate)
    n = 0
    for s in fam:
        c = cs.by_ty.get(s["name"])
        if c is None:
            chk.cannot("W-derive", s["name"], "derived impl not found in the witness crate")
            continue
        c.derived = True
        decl = decls.get(s["name"])
        chars = "".join(v.get("display") or v["name"][0] for v in s["variants"])
        eb = s["bits"] if s.get("bits") is not None else min_bits(max(v["discr"] for v in s["variants"]))
        orc = {"codecs": {c.ty: {"bits": eb, "alphabet": chars, "display": chars}}}
        before = len(chk.violations)
        C05.check_codec(chk, None, c, orc, decl)
        # the token parser and the generator must agree on the declaration (cross-check of the checker itself)
        gen = [(v["name"], v["discr"], sorted(v.get("alts", [])), ord(v["display"]) if v.get("display") else None) for v in s["variants"]]
        par = [(v["name"], v["discr"], sorted(v["alts"]), v["display"]) for v in decl["variants"]] if decl else None
        chk.ob("W-derive/decl", s["name"], gen == par, "declaration parser disagrees with the generator")
        n += 1
    symtab.CodecSet.current = None
    return n


def run(ctx, chk):
    chk.technique = "translation validation of derive instances (generated enum declarations compiled under the extractor, derived tables vs declaration) + interval rule on the generator's narrow arithmetic + compile_fail witnesses"
    chk.explanation = (
        "(i) The four in-tree derived codecs and a generated family of enum declarations (widths 1-8, default and explicit width, binary/hex/"
        "decimal/byte-literal discriminants, alternatives, display characters, largest discriminant at every power-of-two boundary up to 255; "
        "thorough: plus random declarations from VERIF_SEED and the release profile) are compiled with the real derive under the fact extractor; "
        "for each, the derived impl's tables folded from MIR must equal the declaration: BITS (pinned additionally by a const assertion), "
        "to_bits = discriminant, decoders accept exactly discriminants and alternatives, display/default letter, refusal elsewhere, unsafe "
        "decoders agree, items() in declaration order. A declaration the derive rejects or mis-sizes is reported by name from rustc's "
        "diagnostics. (ii) Interval rule: every u8/u16 arithmetic in the derive crate whose operands range over a full narrow type must be "
        "overflow-free. (iii) compile_fail witnesses with compiling twins for malformed declarations (too-small width, missing / string / "
        "expression discriminant, struct input).")
    chk.not_decided = ["exactness of f32::log2/ceil for the width computation - covered only by the instance family (every power-of-two boundary up to 255)",
                       "declarations outside the generated family (instance validation, not a proof about the generator)"]
    chk.assumptions = ["rustc MIR and const evaluation of the witness crate"]
    orc = oracle("alphabets.json")
    # in-tree derived codecs (shared with C05)
    for cfg in ctx.configs():
        chk.cfg = cfg.name
        chk.configs.append(cfg.name)
        for c in cfg.codecs:
            if c.derived:
                C05.check_codec(chk, cfg, c, orc, ctx.decls.get(c.ty))
        n = interval_rule(chk, cfg)
        chk.floor("narrow arithmetic sites[%s]" % cfg.name, n, 1)
    fam = fixed_family()
    if ctx.tier == "thorough":
        fam += random_family(chk.seed, 40)
    n = check_family(chk, ctx, fam, "bsq_witness_derive", False, "witness-dev")
    chk.floor("derive instances (dev profile)", n, len(fam))
    if ctx.tier == "thorough":
        n2 = check_family(chk, ctx, fam, "bsq_witness_derive_rel", True, "witness-release")
        chk.floor("derive instances (release profile)", n2, len(fam))
    chk.cfg = "witness"
    lib, names = doctest_harness()
    res, out, rc = witness.doctests("bsq_witness_badderive", lib)
    for fn, twin, nm in names:
        r = res.get(fn)
        if twin:
            chk.ob("W-twin", "derive " + nm, r == "ok", "the compiling twin does not build (harness broken?): %s" % r, kind="cannot-establish")
        else:
            chk.ob("W-reject", "derive " + nm, r == "ok", "malformed declaration (%s) is accepted by the derive" % nm, kind="malformed-accepted", sample={"case": nm})
    chk.floor("compile_fail witnesses", len([1 for fn, *_ in names if fn in res]), len(names))
    # translation validation: programs = enum declarations compiled with the real derive (in-tree + generated, per profile),
    # disagreements_checked = table points compared between the declaration and the derived impl's MIR
    chk.level = "translation_validation"
    nprog = n + (n2 if ctx.tier == "thorough" else 0) + sum(1 for cfg in ctx.configs() for c in cfg.codecs if c.derived)
    chk.extra_cov = {"programs": nprog, "disagreements_checked": chk.obligations,
                     "checker_cmd": "python3 bin/check C17 --tier " + ctx.tier}
    if not chk.samples:
        chk.samples.append({"declaration": render(fam[0])})
    else:
        chk.samples.insert(0, {"declaration": render(fam[15]), "note": "one of the generated witness declarations"})
