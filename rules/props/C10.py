"""C10 Ordering is colexicographic = numeric order of the packed integer."""
import re

import an
import kstorage
import nf
from an import P, F, BITS, short
from ctx import oracle
from props import C05
from terms import show

ORD = "std::cmp::Ord"
PORD = "std::cmp::PartialOrd"


def run(ctx, chk):
    chk.technique = "comparator provenance: which values each Ord/PartialOrd impl compares, and in which traversal order (normal forms over the resolved impl set)"
    chk.explanation = (
        "Kmer's Ord and PartialOrd reduce to the comparison of the two storage words (S::cmp / S::partial_cmp on self.bs, other.bs; the "
        "PhantomData field compares Equal), i.e. the numeric order of the packed integers, total and consistent with the derived storage "
        "equality; with the little-endian packing (C04) and canonical storage (C09 I-canon) that is the colexicographic order by symbol code, "
        "and Dna's codes are A<C<G<T = 0..3 (tables). For Seq, cmp must compare from the most significant end: accepted idioms are a "
        "lexicographic Iterator::cmp over the reversed bit (or symbol) traversal of both operands, built by the same adaptor chain on self and "
        "other; a comparator over the forward traversal (e.g. the order derived from BitVec, lexicographic from bit 0) is the counter-example. "
        "partial_cmp must be Some(cmp).")
    chk.not_decided = ["Iterator::cmp / integer comparison semantics (std)", "min()/max()/sort() themselves (std, given a total order)"]
    chk.assumptions = ["C04 packing rows and C09 I-canon (imported as hypotheses)", "bitvec iter().by_vals() yields bits in index order"]
    orc = oracle("alphabets.json")
    n = 0
    for cfg in ctx.configs():
        chk.cfg = cfg.name
        chk.configs.append(cfg.name)
        bio = cfg.bio
        kstorage.storage_rows(chk, cfg)
        # ---- Kmer ----
        for tr, m, want in ((ORD, "cmp", r"^<S as std::cmp::Ord>::cmp$"), (PORD, "partial_cmp", r"^<S as std::cmp::PartialOrd>::partial_cmp$")):
            bs = an.methods(bio, m, trait=tr, self_re=r"^kmer::Kmer<")
            if len(bs) != 1:
                chk.cannot("S-ord", "Kmer::" + m, "expected exactly one %s impl for Kmer, found %d" % (tr, len(bs)))
                continue
            b = bs[0]
            paths, _ = an.analyse(cfg, b)
            r = [p for p in paths if p.end == "return"]
            ok = len(r) == 1 and not r[0].guards and an.is_call(r[0].ret, re.compile(want), (F(P(1), "bs"), F(P(2), "bs")))
            chk.ob("S-ord", "Kmer::" + m, ok, "must be the numeric comparison of the two storage words (self.bs, other.bs); got %s" % [p.describe()[:200] for p in r], b["span"],
                   sample=show(r[0].ret) if r else None)
            n += 1
        # other comparison methods (lt, le, ...) must not be overridden
        over = [b["path"] for b in bio.bodies if (b.get("impl") or {}).get("trait") in (ORD, PORD) and re.search(r"^<kmer::Kmer<|^<seq::Seq<", b["path"]) and
                b["path"].split("::")[-1] in ("lt", "le", "gt", "ge", "max", "min", "clamp")]
        chk.ob("S-ord/override", "Kmer/Seq comparison operators", not over, "overridden: %s" % over)
        # closed world: no other ordering on sequence types (SeqSlice, SeqArray and references have none today)
        extra = [b["path"] for b in bio.bodies if (b.get("impl") or {}).get("trait") in (ORD, PORD) and
                 re.match(r"^&?(seq::slice::SeqSlice<|seq::array::SeqArray<|&seq::Seq<|&kmer::Kmer<)", an._strip_lt((b.get("impl") or {}).get("self_ty") or ""))]
        chk.ob("S-ord/closed", "orderings on sequence types", not extra, "ordering impl without a row (it must agree with the colexicographic order): %s" % extra, kind="cannot-establish")
        # Dna codes
        dn = cfg.codecs.get("dna::Dna")
        if dn:
            tb = dn.sym_fn("to_bits")
            codes = [tb[s][1] for s in ("A", "C", "G", "T") if s in tb and tb[s][0] == "int"]
            chk.ob("T-dna-order", "dna::Dna", codes == [0, 1, 2, 3], "Dna codes A,C,G,T = %s, expected 0,1,2,3" % codes, dn.where)
        # ---- Seq ----
        bs = an.methods(bio, "cmp", trait=ORD, self_re=r"^seq::Seq<A>$")
        if len(bs) != 1:
            chk.cannot("S-ord", "Seq::cmp", "expected exactly one Ord impl for Seq, found %d" % len(bs))
        else:
            b = bs[0]
            paths, _ = an.analyse(cfg, b, policy=an.InlineAll())
            r = [p for p in paths if p.end == "return"]
            ok = False
            why = ""
            if len(r) == 1 and not r[0].guards and an.is_call(r[0].ret, re.compile(r" as std::iter::Iterator>::cmp::<")):
                a0, a1 = r[0].ret[2]
                why = "cmp(%s, %s)" % (show(a0)[:150], show(a1)[:150])
                import pipes
                swapped = pipes.subst(a0, {P(1): P(2)})
                same_chain = swapped == a1 and a0 != a1
                # reversed traversal: an Iterator::rev adaptor (or the crate's rev_iter) outermost, over all bits / symbols of the operand
                def reversed_all(t):
                    # the elements compared must be the single bits of the whole content, last bit first: rev(by_vals(iter(bits)))
                    # or rev(iter(bits)).  A traversal by symbol is not accepted as such: its elements would have to be compared
                    # as integers (a window of bits, or a decoded symbol, orders differently), which no row establishes.
                    if not an.is_call(t, re.compile(r" as std::iter::Iterator>::rev$")) or len(t[2]) != 1:
                        return False
                    inner = t[2][0]
                    # or the stored symbol codes as integers, last symbol first: rev(map(chunks_exact(bits, BITS), load_le::<u8>))
                    # (a symbol is at most 8 bits wide; the numeric order of the codes is the order of their bits from the top)
                    if an.is_call(inner, re.compile(r"^<bitvec::slice::ChunksExact<.*> as std::iter::Iterator>::map::<u8, ")) and len(inner[2]) == 2:
                        src, fn = inner[2]
                        return an.is_call(src, re.compile(r"^bitvec::slice::api::<impl bitvec::slice::BitSlice>::chunks_exact$"), (("bits", P(1)), BITS)) and \
                            isinstance(fn, tuple) and fn[0] == "fn" and fn[1] == "bitvec::field::BitField::load_le" and tuple(fn[2])[-1:] == ("u8",)
                    if an.is_call(inner, re.compile(r"^bitvec::slice::Iter::<.*>::by_vals$")) and len(inner[2]) == 1:
                        inner = inner[2][0]
                    return an.is_call(inner, re.compile(r"^bitvec::slice::api::<impl bitvec::slice::BitSlice>::iter$"), (("bits", P(1)),))
                ok = same_chain and reversed_all(a0)
            else:
                why = "; ".join(p.describe()[:200] for p in r)
            derived = (b.get("impl") or {}).get("derived")
            chk.ob("S-ord", "Seq::cmp", ok and not derived,
                   "Seq must order from the most significant (last) end - a lexicographic comparison of the reversed traversal of both operands; got %s%s" % (
                       "the derived order over BitVec (lexicographic from bit 0): " if derived else "", why), b["span"], kind="not-colex", sample=why)
            n += 1
        bs = an.methods(bio, "partial_cmp", trait=PORD, self_re=r"^seq::Seq<A>$")
        if len(bs) == 1:
            b = bs[0]
            paths, _ = an.analyse(cfg, b)
            r = [p for p in paths if p.end == "return"]
            ok = len(r) == 1 and not r[0].guards and r[0].ret[0] == "agg" and r[0].ret[3] == "Some" and \
                an.is_call(r[0].ret[4][0], re.compile(r"^<seq::Seq<A> as std::cmp::Ord>::cmp$"), (P(1), P(2)))
            chk.ob("S-ord", "Seq::partial_cmp", ok and not (b.get("impl") or {}).get("derived"), "partial_cmp must be Some(self.cmp(other)); got %s" % [p.describe()[:160] for p in r], b["span"])
            n += 1
        else:
            chk.cannot("S-ord", "Seq::partial_cmp", "expected exactly one PartialOrd impl for Seq, found %d" % len(bs))
    import core
    for cfg in ctx.configs():
        chk.cfg = cfg.name
        # numeric order of storage is colex only for canonical storage and the documented packing: imported rows
        core.import_rows(chk, cfg, "C09", "props.C09", ("I-canon", "R24", "G22", "I-width2", "R23"))
        core.import_rows(chk, cfg, "C04", "props.C04", ("I-endian", "I-order", "S-kmer-int"))
        # "the minimum over a sequence's k-mers is its minimiser": min()/max()/fold run over KmerIter, whose rows are imported
        core.import_rows(chk, cfg, "C08", "props.C08", ("G05", "I-override"))
        # "consistent with equality": the equality the order must agree with is C02's (storage words for Kmer, content for Seq)
        core.import_rows(chk, cfg, "C02", "props.C02", ("S-eq", "G-kmer-eq"))
    import core as _core
    for cfg in ctx.configs():
        chk.cfg = cfg.name
        _core.import_codec_core(chk, cfg)      # the symbols' own tables (C05)
    chk.floor("comparator rows", n, 4 * len(chk.configs))
