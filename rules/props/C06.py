"""C06 Editing an owned sequence behaves like editing a list of symbols.

Effect summaries per mutator (appendix D rows R08-R14): each mutator's ordered
effect trace on the bit vector is compared with the concatenation of content
ranges the list model prescribes; every range is in whole symbols (I-align), so
the list abstraction is preserved inductively by each step.
"""
import re

import an
import kstorage
import nf
import seqctor
import xlate
from an import P, F, L, BITS, add, sub, mul, c, cmp, canon, gset, gshow, short
from terms import show

SELF_BITS = ("bits", P(1))


def rets(paths):
    return [p for p in paths if p.end == "return"]


def eff(p, obj):
    """ordered (callee short name, other args) of calls on obj, dropping pure reads"""
    out = []
    for key, args, res, ev in an.calls_on(p, obj):
        s = short(key)
        if s in ("len", "deref", "deref_mut", "index", "as_ref", "capacity"):
            continue
        out.append((s, args[1:]))
    return out


def bslice(x, lo, hi):
    return ("bslice", x, canon(lo), canon(hi) if hi is not None else None)


def norm_range(t):
    rb = nf.range_bounds(t)
    if rb is None:
        return None
    return canon(rb[0]), canon(rb[1]) if rb[1] is not None else None


def uncond(chk, rule, what, cfg, b, allow_assert=None):
    paths, N = an.analyse(cfg, b)
    res, ag = an.strip_assert_guards(paths)
    r = rets(paths)
    bad = [p for p in paths if p.end not in ("return", "panic")]
    if bad or len(r) != 1 or res[id(r[0])]:
        chk.cannot(rule, what, "expected one unconditional returning path: %s" % "; ".join(p.describe()[:200] for p in (bad or r)), b["span"])
        return None, paths, ag
    return r[0], paths, ag


def fresh_vector(chk, rule, what, p, b, pieces):
    """self.bv is replaced by a fresh vector filled with `pieces` in order"""
    st = [(lv, v) for lv, v in p.raw.stores]
    Np = an.norm_of(p)
    stores = [(Np(lv), v) for lv, v in st]
    tgt = [v for lv, v in stores if lv == SELF_BITS]
    if len(tgt) != 1 or len(stores) != 1:
        chk.fail(rule, what, "mismatch", "expected exactly one store, to self.bv; found %s" % [show(lv) for lv, _ in stores], b["span"])
        return
    base, ids = an.peel_posts(tgt[0])
    nb = Np(base)
    okb = nb[0] == "call" and short(nb[1]) in ("with_capacity", "new")
    evs = [x for x in p.calls if x[3].idx in ids]
    got = [(short(k), a[1:]) for k, a, r, ev in evs]
    want = [("extend_from_bitslice", (x,)) for x in pieces]
    chk.ob(rule, what, okb and got == want and len(ids) == len(evs),
           "self.bv := %s filled by %s; expected a fresh vector filled by %s" % (
               show(nb)[:80], [(n, [show(x) for x in a]) for n, a in got], [(n, [show(x) for x in a]) for n, a in want]), b["span"],
           sample={"anchor": what, "pieces": [show(x) for x in pieces]})
    # every other call on the fresh vector must be one of those
    if evs:
        obj = evs[0][1][0]
        extra = [e for e in eff(p, obj) if e not in got]
        chk.ob(rule + "/only", what, not extra, "other effects on the fresh vector: %s" % extra, b["span"])


def run(ctx, chk):
    chk.technique = "per-mutator effect summaries (ordered bit-range concatenations) from MIR dataflow + symbol-alignment invariant over all constructors and mutators"
    chk.explanation = (
        "Every length- or content-changing method of Seq is summarised as its ordered effect trace on the bit vector and compared with the "
        "list model: push appends view_bits::<Lsb0>(to_bits(x))[0..BITS); append extends by content(other); prepend/insert rebuild a fresh "
        "vector from content(other) and the two halves of self split at index*BITS (insert under assert index<=len); remove drains "
        "[BITS*s, BITS*e) with (s,e) by RangeBounds semantics for all 3x3 Bound combinations; truncate(n) = truncate(n*BITS); clear; "
        "extend/FromIterator/Extend = one push per item in order. All ranges are whole symbols, and every Seq constructor builds a "
        "symbol-aligned vector (I-align), so each step preserves the list abstraction: this inductive step replaces exploring histories. "
        "Clone/to_owned build a fresh vector (independence of copies).")
    chk.not_decided = ["bitvec's extend_from_bitslice / drain / truncate semantics on vectors (model rows)",
                       "panics for out-of-range arguments beyond the documented assert (bitvec's)"]
    chk.assumptions = ["bitvec 1.1.1 model rows (appendix A)", "std Iterator::for_each visits items in order"]
    nrows = 0
    for cfg in ctx.configs():
        chk.cfg = cfg.name
        chk.configs.append(cfg.name)
        bio = cfg.bio
        SEQ = r"^seq::Seq<A>$"

        def m(name):
            return an.one(chk, "R-edit", bio, "Seq::" + name, name=name, self_re=SEQ, inherent=True)
        # ---- push (R08) ----
        b = m("push")
        if b:
            p, _, _ = uncond(chk, "R08", "Seq::push", cfg, b)
            if p:
                e = eff(p, SELF_BITS)
                ok = False
                desc = [(n, [show(x) for x in a]) for n, a in e]
                if len(e) == 1 and e[0][0] == "extend_from_bitslice":
                    x = e[0][1][0]
                    if x[0] == "bslice" and x[2] == canon(c(0)) and x[3] == canon(BITS):
                        v = x[1]
                        if v[0] == "call" and re.search(r"<u8 as bitvec::view::BitView>::view_bits::<bitvec::order::Lsb0>$", v[1]):
                            src = v[2][0]
                            ok = an.is_call(src, "<A as codec::Codec>::to_bits", (P(2),))
                chk.ob("R08", "Seq::push", ok, "push effect %s; expected extend(view_bits::<Lsb0>(to_bits(item))[0..BITS])" % desc, b["span"], sample=desc)
                chk.ob("R08/only", "Seq::push", not p.stores, "push writes %s" % [show(lv) for lv, _ in p.stores], b["span"])
                nrows += 1
        # ---- append (R11) ----
        b = m("append")
        if b:
            p, _, _ = uncond(chk, "R11", "Seq::append", cfg, b)
            if p:
                e = eff(p, SELF_BITS)
                chk.ob("R11", "Seq::append", e == [("extend_from_bitslice", (("bits", P(2)),))] and not p.stores,
                       "append effect %s; expected extend(content(other))" % [(n, [show(x) for x in a]) for n, a in e], b["span"])
                nrows += 1
        # ---- prepend (R10) ----
        b = m("prepend")
        if b:
            p, _, _ = uncond(chk, "R10", "Seq::prepend", cfg, b)
            if p:
                fresh_vector(chk, "R10", "Seq::prepend", p, b, [("bits", P(2)), SELF_BITS])
                nrows += 1
        # ---- insert (R09, G21) ----
        b = m("insert")
        if b:
            paths, N = an.analyse(cfg, b)
            r = rets(paths)
            pan = [p for p in paths if p.end == "panic"]
            want_g = cmp(P(2), "Le", L(P(1)))
            chk.ob("G21", "Seq::insert", any(gset(p.guards) == {(want_g[0], nf.NEG[want_g[1]])} or
                                             gset(p.guards) == {nf.mk_cmp(P(2), "Gt", L(P(1)))} for p in pan),
                   "no panic path guarded by exactly index > len (assert index <= len missing or altered): %s" % [gshow(gset(p.guards)) for p in pan], b["span"])
            if len(r) == 1:
                chk.ob("G21/success", "Seq::insert", gset(r[0].guards) == {want_g}, "insert proceeds under %s, expected {index <= len}" % gshow(gset(r[0].guards)), b["span"])
                i_b = mul(P(2), BITS)
                fresh_vector(chk, "R09", "Seq::insert", r[0], b,
                             [bslice(SELF_BITS, c(0), i_b), ("bits", P(3)), bslice(SELF_BITS, i_b, None)])
                nrows += 1
            else:
                chk.cannot("R09", "Seq::insert", "%d returning paths" % len(r), b["span"])
        # ---- truncate (R13), clear ----
        b = m("truncate")
        if b:
            p, _, _ = uncond(chk, "R13", "Seq::truncate", cfg, b)
            if p:
                e = eff(p, SELF_BITS)
                ok = len(e) == 1 and e[0][0] == "truncate" and canon(e[0][1][0]) == canon(mul(P(2), BITS)) and not p.stores
                chk.ob("R13", "Seq::truncate", ok, "truncate effect %s; expected truncate(len*BITS)" % [(n, [show(x) for x in a]) for n, a in e], b["span"])
                nrows += 1
        b = m("clear")
        if b:
            p, _, _ = uncond(chk, "R13", "Seq::clear", cfg, b)
            if p:
                e = eff(p, SELF_BITS)
                chk.ob("R13", "Seq::clear", e == [("clear", ())] and not p.stores, "clear effect %s" % e, b["span"])
                nrows += 1
        # ---- remove (R12) ----
        b = m("remove")
        if b:
            nrows += check_remove(chk, cfg, b)
        # ---- extend / Extend / FromIterator ----
        b = m("extend")
        if b:
            # for x in iter { self.push(x) }  (written as a `for` loop or as for_each: the engine presents both as a loop)
            ps, _ = an.analyse(cfg, b, policy=an.NoInline())
            conts = [p for p in ps if p.end == "continue"]
            rs = rets(ps)
            bad = [p for p in ps if p.end not in ("continue", "return")]
            ok = False
            why = "%d iteration paths, %d exits, %d other" % (len(conts), len(rs), len(bad))
            if len(conts) == 1 and len(rs) == 1 and not bad:
                src = xlate.iter_source(rs[0])
                item, _nx = xlate.loop_item(conts[0])
                oksrc = src == P(2) or an.is_call(src, re.compile(r"IntoIterator>::into_iter$"), (P(2),))
                pre = [x[3].idx for x in rs[0].calls]
                body = [x for x in conts[0].calls if x[3].idx not in pre and short(x[0]) != "next"]
                ok = oksrc and item is not None and len(body) == 1 and body[0][0] == "seq::Seq::<A>::push" and body[0][1] == (P(1), item) and \
                    not [x for x in rs[0].calls if short(x[0]) not in ("into_iter", "next")] and not rs[0].stores
                why = "source %s, body %s" % (show(src)[:80] if src else "?", [(short(x[0]), [show(a)[:40] for a in x[1]]) for x in body])
            chk.ob("S-extend", "Seq::extend", ok, "extend must push every element of the iterator, in order, and do nothing else; found " + why, b["span"])
            nrows += 1
        b = an.one(chk, "S-extend", bio, "Extend<A> for Seq", name="extend", trait="std::iter::Extend", self_re=SEQ, targ_re=r"^A$")
        if b:
            p, _, _ = uncond(chk, "S-extend", "Extend<A> for Seq", cfg, b)
            if p:
                ok = len(p.calls) == 1 and p.calls[0][0].startswith("seq::Seq::<A>::extend") and p.calls[0][1] == (P(1), P(2))
                chk.ob("S-extend", "Extend<A> for Seq", ok, "Extend::extend must delegate to Seq::extend(self, iter)", b["span"])
        b = an.one(chk, "S-extend", bio, "FromIterator<A> for Seq", name="from_iter", trait="std::iter::FromIterator", self_re=SEQ)
        if b:
            p, _, _ = uncond(chk, "S-extend", "FromIterator<A> for Seq", cfg, b)
            if p:
                base, ids = an.peel_posts(p.raw.ret)
                Np = an.norm_of(p)
                nb = Np(base)
                evs = [x for x in p.calls if x[3].idx in ids]
                ok = nb[0] == "call" and nb[1] == "seq::Seq::<A>::with_capacity" and len(evs) == 1 and \
                    evs[0][0].startswith("seq::Seq::<A>::extend") and an.is_call(evs[0][1][1], "<I as std::iter::IntoIterator>::into_iter", (P(1),))
                # the vector returned is the one that was extended, and nothing else touched it
                chk.ob("S-extend", "FromIterator<A> for Seq", bool(ok),
                       "from_iter must be with_capacity(..) then extend(iter.into_iter()); got %s with %s" % (show(nb)[:80], [(short(x[0]), [show(a) for a in x[1][1:]]) for x in evs]), b["span"])
        kstorage.unchecked_scan(chk, cfg)
        # copies: Clone / ToOwned define only clone / to_owned (no clone_from / clone_into shortcuts without a row)
        an.no_overrides(chk, bio, "I-override", "Seq", "std::clone::Clone", r"^seq::Seq<A>$", ("clone",))
        an.no_overrides(chk, bio, "I-override", "SeqSlice", "std::borrow::ToOwned", r"^seq::slice::SeqSlice<A>$", ("to_owned",))
        # ---- I-align over constructors; independence of copies ----
        seqctor.check(chk, cfg, "I-align")
    import core as _core
    for cfg in ctx.configs():
        chk.cfg = cfg.name
        _core.import_codec_core(chk, cfg)      # the symbols' own tables (C05)
    chk.floor("mutator rows over all configurations", nrows, 8 * len(chk.configs))


BOUND = {"Included": 0, "Excluded": 1}


def check_remove(chk, cfg, b):
    paths, N = an.analyse(cfg, b)
    # the range resolver's debug assertions (start <= end, end <= len) are preconditions of remove: registered for I-assert, so that
    # `s <= e` turned into `s < e` (an empty range now panics) is reported
    an.strip_assert_guards(paths)
    r = rets(paths)
    bad = [p for p in paths if p.end not in ("return", "panic")]
    if bad:
        chk.cannot("R12", "Seq::remove", "unrecognised outcome " + bad[0].describe()[:200], b["span"])
        return 0
    seen = {}
    for p in r:
        dr = [x for x in p.calls if short(x[0]) == "drain"]
        if len(dr) != 1 or dr[0][1][0] != SELF_BITS:
            chk.fail("R12", "Seq::remove", "mismatch", "a returning path does not drain self.bv exactly once", b["span"])
            continue
        rg = norm_range(dr[0][1][1])
        if rg is None:
            chk.cannot("R12", "Seq::remove", "drain argument is not a range literal: " + show(dr[0][1][1]), b["span"])
            continue
        # which Bound variants does this path assume?  read them off the switch guards
        sw = {}
        for g in p.guards:
            if g[0] == "sw" and g[1][0] == "discr":
                callee = g[1][1]
                if callee[0] == "call" and short(callee[1]) in ("start_bound", "end_bound") and g[2] == "==":
                    sw[short(callee[1])] = (g[3], callee)
        if set(sw) != {"start_bound", "end_bound"}:
            chk.cannot("R12", "Seq::remove", "path is not keyed by both start_bound and end_bound variants: " + p.describe()[:200], b["span"])
            continue
        (sv, scall), (evv, ecall) = sw["start_bound"], sw["end_bound"]
        ok_recv = scall[2] == (P(2),) and ecall[2] == (P(2),)

        def payload(call, vname):
            return F(("downcast", call, BOUND[vname], vname), "0")
        # core::ops::Bound: Included = 0, Excluded = 1, Unbounded = 2 (declaration order)
        names = {0: "Included", 1: "Excluded", 2: "Unbounded"}
        sn, en = names.get(sv), names.get(evv)
        if sn is None or en is None:
            chk.cannot("R12", "Seq::remove", "unknown Bound discriminant %s/%s" % (sv, evv), b["span"])
            continue
        s_exp = {"Included": lambda: payload(scall, "Included"), "Excluded": lambda: add(payload(scall, "Excluded"), c(1)), "Unbounded": lambda: c(0)}[sn]()
        e_exp = {"Included": lambda: add(payload(ecall, "Included"), c(1)), "Excluded": lambda: payload(ecall, "Excluded"), "Unbounded": lambda: L(P(1))}[en]()
        want = (canon(mul(s_exp, BITS)), canon(mul(e_exp, BITS)))
        what = "Seq::remove(%s, %s)" % (sn, en)
        chk.ob("R12", what, ok_recv and rg == want,
               "drains [%s, %s); RangeBounds semantics require [%s, %s)" % (show(rg[0]), show(rg[1]) if rg[1] else "end", show(want[0]), show(want[1])), b["span"],
               sample={"bounds": (sn, en), "drain": [show(rg[0]), show(rg[1])]})
        seen[(sn, en)] = True
        others = [e for e in eff(p, SELF_BITS) if e[0] != "drain"]
        chk.ob("R12/only", what, not others and not p.stores, "other effects: %s" % others, b["span"])
    chk.ob("R12/cover", "Seq::remove", len(seen) == 9, "only %d of the 9 Bound combinations have a row: %s" % (len(seen), sorted(seen)), b["span"])
    return 1 if len(seen) == 9 else 0
