"""C18 Serialization round trip preserves sequences and k-mers (wiring only)."""
import re
import tomllib
import os

import an
import facts
from an import P, F, short
from terms import show, walk

TYPES = (("seq::Seq", "Seq", r"^seq::Seq<"), ("kmer::Kmer", "Kmer", r"^kmer::Kmer<"))


def run(ctx, chk):
    chk.technique = "derive/feature wiring: generated Serialize/Deserialize impls read from MIR (fields emitted/consumed once, by the same names, unconditionally) + Cargo feature graph"
    chk.explanation = (
        "Wiring only, stated plainly. With the serde feature on, Seq and Kmer have automatically derived Serialize and Deserialize impls. The "
        "serializer's success path is serialize_struct(name, n) followed by exactly n serialize_field calls - one per declared field, in "
        "declaration order, under the field's own name, with the field's own value, unconditionally (no skip) - then end(). The deserializer "
        "calls deserialize_struct with the same struct name, its field-name visitor recognises exactly the same names, and visit_seq builds the "
        "struct from the successive elements with an error (never a default) for a missing one. Cargo: feature serde enables dep:serde, "
        "dep:serde_derive and bitvec/serde; serde has the derive feature. Given stock derives, round-tripping the struct is round-tripping its fields.")
    chk.not_decided = ["that bitvec's serde impl and integers round-trip in bincode and JSON", "equality after a round trip as such"]
    chk.assumptions = ["serde / serde_derive / bitvec serde implementations", "format crates"]
    n = 0
    for cfg in ctx.configs(need_all_features=True):
        chk.cfg = cfg.name
        chk.configs.append(cfg.name)
        bio = cfg.bio
        for adt_path, sname, sre in TYPES:
            adt = bio.adts.get(adt_path)
            if not adt:
                chk.cannot("M-serde", sname, "type not found")
                continue
            fields = [f["name"] for f in adt["variants"][0]["fields"]]
            ser = [im for im in bio.impls if (im.get("trait") or "").endswith("_serde::Serialize") and re.match(sre, im["self_ty"])]
            de = [im for im in bio.impls if (im.get("trait") or "").endswith("_serde::Deserialize") and re.match(sre, im["self_ty"])]
            chk.ob("M-serde/impls", sname, len(ser) == 1 and len(de) == 1 and ser[0]["derived"] and de[0]["derived"],
                   "%s must have derived Serialize and Deserialize impls under the serde feature (found %d/%d)" % (sname, len(ser), len(de)), adt["span"])
            if not (len(ser) == 1 and len(de) == 1):
                continue
            # ---- serializer ----
            sb = [b for b in bio.bodies if b["path"].endswith("::serialize") and (b.get("impl") or {}).get("id") == ser[0]["id"]]
            if len(sb) != 1:
                chk.cannot("M-serde/ser", sname, "serialize body not found")
            else:
                paths, _ = an.analyse(cfg, sb[0], policy=an.NoInline())
                okp = [p for p in paths if p.end == "return" and an.is_call(p.ret, re.compile(r"SerializeStruct>::end$"))]
                good = len(okp) == 1
                got = "?"
                if good:
                    p = okp[0]
                    ss = [x for x in p.calls if short(x[0]) == "serialize_struct"]
                    sf = [x for x in p.calls if short(x[0]) == "serialize_field"]
                    sk = [x for x in p.calls if short(x[0]) in ("skip_field",)]
                    got = "serialize_struct%s fields %s" % ([show(a) for a in ss[0][1][1:]] if ss else "?", [(show(x[1][1]), show(x[1][2])) for x in sf])
                    good = len(ss) == 1 and ss[0][1][1] == ("str", sname) and ss[0][1][2][0] == "int" and ss[0][1][2][1] == len(fields) and not sk
                    good = good and [x[1][1] for x in sf] == [("str", f) for f in fields]
                    for x, f in zip(sf, fields):
                        v = x[1][2]
                        good = good and (v == F(P(1), f) or (f == "bv" and v == ("bits", P(1))))
                    # unconditional: no user-level branch before end() other than `?` on the calls above
                    extra = [g for g in p.guards if not (g[0] == "sw" and an.is_call(g[1][1] if g[1][0] == "discr" else (), re.compile(r"Try>::branch$")))]
                    good = good and not extra
                chk.ob("M-serde/ser", sname, good, "serializer must emit every field once, by name, unconditionally: " + got, sb[0]["span"], sample=got)
                n += 1
            # ---- deserializer ----
            db = [b for b in bio.bodies if b["path"].endswith("::deserialize") and (b.get("impl") or {}).get("id") == de[0]["id"]]
            if len(db) != 1:
                chk.cannot("M-serde/de", sname, "deserialize body not found")
                continue
            paths, _ = an.analyse(cfg, db[0], policy=an.NoInline())
            r = [p for p in paths if p.end == "return"]
            okd = len(r) == 1 and not r[0].guards and an.is_call(r[0].ret, re.compile(r"Deserializer<'_>>::deserialize_struct::<")) and r[0].ret[2][1] == ("str", sname)
            chk.ob("M-serde/de", sname, okd, "deserialize must be deserialize_struct(%r, FIELDS, visitor): %s" % (sname, show(r[0].ret)[:160] if r else "?"), db[0]["span"])
            prefix = db[0]["path"]
            vs = [b for b in bio.bodies if b["path"].endswith("::visit_str") and "__FieldVisitor" in b["path"] and sname + "<" in b["path"]]
            names = []
            if len(vs) == 1:
                vp, _ = an.analyse(cfg, vs[0], policy=an.NoInline())
                for p in vp:
                    if p.end == "return" and p.ret[0] == "agg" and p.ret[4] and p.ret[4][0][0] == "agg" and p.ret[4][0][3].startswith("__field"):
                        for g in p.guards:
                            if g[0] == "bool" and g[2] is True and an.is_call(g[1], re.compile(r"PartialEq for str>::eq$")):
                                names.append((p.ret[4][0][3], str(g[1][2][1][1]).strip('"')))
            names.sort()
            chk.ob("M-serde/names", sname, [nm for _, nm in names] == fields, "deserializer recognises fields %s, struct has %s" % ([nm for _, nm in names], fields), db[0]["span"],
                   sample={"fields": fields})
            vq = [b for b in bio.bodies if b["path"].endswith("::visit_seq") and "__Visitor" in b["path"] and sname + "<" in b["path"]]
            if len(vq) == 1:
                qp, _ = an.analyse(cfg, vq[0], policy=an.NoInline())
                oks = [p for p in qp if p.end == "return" and p.ret[0] == "agg" and p.ret[3] == "Ok"]
                good = len(oks) == 1 and oks[0].ret[4][0][0] == "agg" and oks[0].ret[4][0][1] == adt_path
                if good:
                    ops = oks[0].ret[4][0][4]
                    ftys = [f["ty"] for f in adt["variants"][0]["fields"]]
                    good = len(ops) == len(fields)
                    for o, fty in zip(ops, ftys):
                        # exactly  next_element::<field type>()? .unwrap-or-invalid_length : no wrapper type, no post-processing hook
                        t = o
                        depth = 0
                        while isinstance(t, tuple) and t[0] in ("F", "downcast") and depth < 6:
                            t = t[1]
                            depth += 1
                        okf = an.is_call(t, re.compile(r"Try>::branch$")) and an.is_call(t[2][0], re.compile(r"SeqAccess<'_>>::next_element::<"))
                        if okf:
                            m = re.search(r"next_element::<(.*)>$", t[2][0][1])
                            okf = m is not None and m.group(1).replace(" ", "") == fty.replace(" ", "")
                        good = good and okf
                    nd = [x for x in oks[0].calls if "Default" in x[0] or short(x[0]) == "default"]
                    good = good and not nd
                # missing elements are errors
                errs = [p for p in qp if p.end == "return" and p.ret[0] == "agg" and p.ret[3] == "Err" and "invalid_length" in show(p.ret)]
                good = good and len(errs) == len(fields)
                chk.ob("M-serde/visit_seq", sname, good, "visit_seq must build the struct from successive elements of the fields' own types (no deserialize_with / wrapper / default) and report invalid_length for a missing one", vq[0]["span"])
            else:
                chk.cannot("M-serde/visit_seq", sname, "visit_seq not found uniquely")
            vm = [b for b in bio.bodies if b["path"].endswith("::visit_map") and "__Visitor" in b["path"] and sname + "<" in b["path"]]
            if len(vm) == 1:
                mp, _ = an.analyse(cfg, vm[0], policy=an.NoInline())
                ftys = set(f["ty"].replace(" ", "") for f in adt["variants"][0]["fields"])
                seen = set()
                for q in mp:
                    for x in q.calls:
                        m = re.search(r"MapAccess<'_>>::next_value::<(.*)>$", x[0])
                        if m:
                            seen.add(m.group(1).replace(" ", ""))
                ign = set(t for t in seen if t.endswith("IgnoredAny"))
                okm = seen - ign == ftys
                oks = [q for q in mp if q.end == "return" and q.ret[0] == "agg" and q.ret[3] == "Ok"]
                for q in oks:
                    st = q.ret[4][0]
                    okm = okm and st[0] == "agg" and st[1] == adt_path and all(("loopvar" in show(o) or "missing_field" in show(o)) and "efault" not in show(o) for o in st[4])
                chk.ob("M-serde/visit_map", sname, okm and bool(oks),
                       "visit_map must read each value as the field's own type (%s) and fill a missing field only through missing_field; value types read: %s" % (sorted(ftys), sorted(seen)), vm[0]["span"])
            else:
                chk.cannot("M-serde/visit_map", sname, "visit_map not found uniquely")
            n += 1
        # ---- Cargo feature wiring ----
        try:
            with open(os.path.join(facts.REPO, "bio-seq", "Cargo.toml"), "rb") as fh:
                t = tomllib.load(fh)
            feat = set(t.get("features", {}).get("serde", []))
            deps = t.get("dependencies", {})
            sd = deps.get("serde", {})
            ok = {"dep:serde", "bitvec/serde"} <= feat and (("dep:serde_derive" in feat) or "derive" in (sd.get("features", []) if isinstance(sd, dict) else []))
            ok = ok and isinstance(sd, dict) and sd.get("optional") is True
            chk.ob("M-serde/cargo", "feature serde", ok, "feature serde = %s; must enable dep:serde (+derive) and bitvec/serde" % sorted(feat), "bio-seq/Cargo.toml")
        except Exception as e:
            chk.cannot("M-serde/cargo", "feature serde", "Cargo.toml unreadable: %r" % e)
    chk.floor("serde rows", n, 4 * max(1, len(chk.configs)))
