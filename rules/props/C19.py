"""C19 Cross-codec conversion and trimming preserve the underlying bases."""
import re

import an
import nf
import pipes
from an import P, F, L, add, sub, c, canon, short
from symtab import result_kind
from terms import show, I


def run(ctx, chk):
    chk.technique = "conversion tables by constant propagation (exhaustive) + map/collect normal form for sequence conversion + affine rows and closure normal forms for trim_u8"
    chk.explanation = (
        "Symbol level: Iupac::from(d) and text::Dna::from(d) display the same letter as d for the four bases; dna::Dna::try_from(text::Dna(b)) is "
        "folded over all 256 bytes: Ok exactly for A,C,G,T with the matching base, Err(UnrecognisedBase(b)) otherwise. Sequence level: the three "
        "From<...> for Seq<B> impls (from &SeqSlice, &SeqArray, SeqArray) are collect(map(Into::into)) over the symbol iterator of the content, "
        "hence length- and order-preserving. trim_u8: start = position(acceptable) or len (or 0), end = start + rposition(acceptable in v[start..]) + 1 "
        "or start, both predicates being try_from_ascii(b).is_some() (the parser's own acceptance test), and the result is the strict parser normal "
        "form (C01) over v[start..end].")
    chk.not_decided = ["std position/rposition/collect semantics"]
    chk.assumptions = ["std Iterator::position / rposition / map / collect", "C01 strict parser normal form; C05 tables"]
    nconv = 0
    for cfg in ctx.configs():
        chk.cfg = cfg.name
        chk.configs.append(cfg.name)
        bio = cfg.bio
        cs = cfg.codecs
        dn, iu, tx = cs.get("dna::Dna"), cs.get("iupac::Iupac"), cs.get("text::Dna")
        dchar = {k: chr(v[1]) for k, v in dn.sym_fn("to_char").items() if v[0] == "int"}
        # ---- Dna -> Iupac / text ----
        for tgt, tre, nm in ((iu, r"^codec::iupac::Iupac$", "Iupac"), (tx, r"^codec::text::Dna$", "text::Dna")):
            fb = an.one(chk, "T-conv", bio, "%s::from(Dna)" % nm, name="from", trait="std::convert::From", self_re=tre, targ_re=r"^codec::dna::Dna$")
            if not fb:
                continue
            tch = tgt.sym_fn("to_char")
            # to_char of arbitrary target symbols (text::Dna is a newtype: evaluate to_char on the produced term)
            for s in dn.symbols:
                paths = dn.eval_fn(fb, [s.term])
                k = result_kind(tgt, paths)
                got = None
                if k[0] == "sym" and len(paths) == 1:
                    t = paths[0].ret
                    r2 = result_kind(tgt, tgt.eval_fn(tgt.method("to_char"), [t]))
                    got = chr(r2[1]) if r2[0] == "int" else None
                chk.ob("T-conv", "%s::from(Dna::%s)" % (nm, s.name), got == dchar[s.name],
                       "%s::from(Dna::%s) = %s displays as %r; the base displays as %r" % (nm, s.name, k, got, dchar[s.name]), fb["span"], sample={"dna": s.name, "to": got})
        # ---- text -> Dna ----
        tb = an.one(chk, "T-conv", bio, "dna::Dna::try_from(text::Dna)", name="try_from", trait="std::convert::TryFrom", self_re=r"^codec::dna::Dna$", targ_re=r"^codec::text::Dna$")
        if tb:
            for b in range(256):
                arg = ("agg", "codec::text::Dna", 0, "Dna", (I(b, "u8"),))
                k = result_kind(dn, dn.eval_fn(tb, [arg]))
                ch = chr(b)
                if ch in "ACGT":
                    chk.ob("T-conv/back", "byte %r" % ch, k == ("ok", [n for n, v in dchar.items() if v == ch][0]), "try_from(text %r) = %s; expected Ok of the same base" % (ch, k), tb["span"])
                else:
                    ok = k[0] == "err" and isinstance(k[1], tuple) and k[1][0] == "agg" and k[1][3] == "UnrecognisedBase" and k[1][4] == (I(b, "u8"),)
                    chk.ob("T-conv/back", "byte 0x%02x" % b, ok, "try_from(text 0x%02x %r) = %s; expected Err(UnrecognisedBase(0x%02x))" % (b, ch, k if k[0] != "err" else ("err", show(k[1])), b), tb["span"])
        # ---- sequence conversions ----
        for what, targ in (("From<&SeqSlice<A>> for Seq<B>", r"^&seq::slice::SeqSlice<A>$"), ("From<&SeqArray<A,N,W>> for Seq<B>", r"^&seq::array::SeqArray<A, N, W>$"),
                           ("From<SeqArray<A,N,W>> for Seq<B>", r"^seq::array::SeqArray<A, N, W>$")):
            b = an.one(chk, "S-conv", bio, what, name="from", trait="std::convert::From", self_re=r"^seq::Seq<B>$", targ_re=targ)
            if not b:
                continue
            paths, _ = an.analyse(cfg, b)
            r = [p for p in paths if p.end == "return"]
            x = pipes.map_collect_of(r[0].ret, "seq::Seq<B>", "std::convert::Into::into") if len(r) == 1 and not r[0].guards else None
            want = P(1) if "SeqSlice" in what else ("seqview", P(1))
            chk.ob("S-conv", what, x == want, "must be content.iter().map(Into::into).collect(); got " + (show(r[0].ret)[:200] if r else "?"), b["span"],
                   sample="Collect<Seq<B>>(Map(Iter(content), Into::into))")
            nconv += 1
        b = an.one(chk, "S-conv", bio, "From<&Vec<A>> for Seq<A>", name="from", trait="std::convert::From", self_re=r"^seq::Seq<A>$", targ_re=r"^&std::vec::Vec<A>$")
        if b:
            paths, _ = an.analyse(cfg, b)
            r = [p for p in paths if p.end == "return"]
            ok = False
            if len(r) == 1 and not r[0].guards:
                t = r[0].ret
                ok = an.is_call(t, re.compile(r"Iterator>::collect::<seq::Seq<A>>$")) and an.is_call(t[2][0], re.compile(r"Iterator>::copied::<")) and \
                    an.is_call(t[2][0][2][0], re.compile(r"^core::slice::<impl \[A\]>::iter$")) and show(t[2][0][2][0][2][0]) in ("arg1", "<std::vec::Vec<A> as std::ops::Deref>::deref(arg1)")
            chk.ob("S-conv", "From<&Vec<A>> for Seq<A>", ok, "must be vec.iter().copied().collect(); got " + (show(r[0].ret)[:200] if r else "?"), b["span"])
        # ---- trim_u8 (R21) ----
        b = an.one(chk, "R21", bio, "Seq::trim_u8", name="trim_u8", self_re=r"^seq::Seq<A>$", inherent=True)
        if b:
            check_trim(chk, cfg, b)
    chk.floor("sequence conversions", nconv, 3 * len(chk.configs))


def check_trim(chk, cfg, b):
    what = "Seq::trim_u8"
    paths, _ = an.analyse(cfg, b)
    r = [p for p in paths if p.end == "return"]
    if len(r) != 1 or r[0].guards:
        chk.cannot("R21", what, "not a single unconditional path", b["span"])
        return
    p = r[0]
    pos = [x for x in p.calls if short(x[0]) == "position"]
    rpos = [x for x in p.calls if short(x[0]) == "rposition"]
    uo = [x for x in p.calls if short(x[0]) == "unwrap_or"]
    mo = [x for x in p.calls if short(x[0]) == "map_or"]
    if not (len(pos) == 1 and len(rpos) == 1 and len(uo) == 1 and len(mo) == 1):
        chk.cannot("R21", what, "expected one position, one rposition, one unwrap_or, one map_or", b["span"])
        return
    vlen = ("call", "core::slice::<impl [u8]>::len", (P(1),), None)
    viter = re.compile(r"^core::slice::<impl \[u8\]>::iter$")
    # start
    ok1, d1 = pipes.is_accept_closure(cfg, pos[0][1][1])
    src1 = pos[0][3].args and pos[0][1][0]
    start = uo[0][2]
    oks = uo[0][1][0] == pos[0][2] and (uo[0][1][1] == vlen or uo[0][1][1] == c(0))
    # the position iterator runs over the whole input
    it1 = [x for x in p.calls if viter.match(x[0]) and x[1] == (P(1),)]
    chk.ob("R21/start", what, ok1 and oks and len(it1) >= 1,
           "start must be v.iter().position(|b| try_from_ascii(b).is_some()).unwrap_or(v.len() | 0); predicate %s, default %s" % (d1, show(uo[0][1][1])), b["span"],
           sample={"start": "position(acceptable) or len"})
    # end
    ok2, d2 = pipes.is_accept_closure(cfg, rpos[0][1][1])
    tail = ("call", "core::slice::index::<impl std::ops::Index<std::ops::RangeFrom<usize>> for [u8]>::index", (P(1), ("agg", "std::ops::RangeFrom", 0, "RangeFrom", (start,))), None)
    it2 = [x for x in p.calls if viter.match(x[0]) and x[1] == (tail,)]
    cl = pipes.closure_ret(cfg, mo[0][1][2])
    okm = mo[0][1][0] == rpos[0][2] and mo[0][1][1] == start and cl is not None and \
        nf.canon(nf.Norm()(cl)) == nf.canon(add(add(start, ("ARG",)), c(1)))
    chk.ob("R21/end", what, ok2 and okm and len(it2) == 1,
           "end must be v[start..].iter().rposition(acceptable).map_or(start, |pos| start + pos + 1); predicate %s, closure %s" % (d2, show(cl) if cl else "?"), b["span"])
    end = mo[0][2]
    # parse v[start..end]
    x, d = pipes.strict_parse_of(cfg, p.ret)
    want = ("call", "core::slice::index::<impl std::ops::Index<std::ops::Range<usize>> for [u8]>::index", (P(1), ("agg", "std::ops::Range", 0, "Range", (start, end))), None)
    chk.ob("R21/parse", what, x == want, "result must be the strict parse of v[start..end]; %s over %s" % (d, show(x)[:160] if x else "?"), b["span"])
