"""C19 Cross-codec conversion and trimming preserve the underlying bases."""
import re

import an
import nf
import pipes
from an import P, F, L, add, sub, c, canon, short
from symtab import result_kind
from terms import show, I


def run(ctx, chk):
    chk.technique = "conversion tables by constant propagation (exhaustive) + map/collect normal form for sequence conversion + affine rows and closure normal forms for trim_u8"
    chk.explanation = (
        "Symbol level: Iupac::from(d) and text::Dna::from(d) display the same letter as d for the four bases; dna::Dna::try_from(text::Dna(b)) is "
        "folded over all 256 bytes: Ok exactly for A,C,G,T with the matching base, Err(UnrecognisedBase(b)) otherwise. Sequence level: the three "
        "From<...> for Seq<B> impls (from &SeqSlice, &SeqArray, SeqArray) are collect(map(Into::into)) over the symbol iterator of the content, "
        "hence length- and order-preserving. trim_u8: start = position(acceptable) or len (or 0), end = start + rposition(acceptable in v[start..]) + 1 "
        "or start, both predicates being try_from_ascii(b).is_some() (the parser's own acceptance test), and the result is the strict parser normal "
        "form (C01) over v[start..end].")
    chk.not_decided = ["std position/rposition/collect semantics"]
    chk.assumptions = ["std Iterator::position / rposition / map / collect", "C01 strict parser normal form; C05 tables"]
    nconv = 0
    for cfg in ctx.configs():
        chk.cfg = cfg.name
        chk.configs.append(cfg.name)
        bio = cfg.bio
        cs = cfg.codecs
        dn, iu, tx = cs.get("dna::Dna"), cs.get("iupac::Iupac"), cs.get("text::Dna")
        dchar = {k: chr(v[1]) for k, v in dn.sym_fn("to_char").items() if v[0] == "int"}
        # ---- Dna -> Iupac / text ----
        for tgt, tre, nm in ((iu, r"^codec::iupac::Iupac$", "Iupac"), (tx, r"^codec::text::Dna$", "text::Dna")):
            fb = an.one(chk, "T-conv", bio, "%s::from(Dna)" % nm, name="from", trait="std::convert::From", self_re=tre, targ_re=r"^codec::dna::Dna$")
            if not fb:
                continue
            tch = tgt.sym_fn("to_char")
            # to_char of arbitrary target symbols (text::Dna is a newtype: evaluate to_char on the produced term)
            for s in dn.symbols:
                paths = dn.eval_fn(fb, [s.term])
                k = result_kind(tgt, paths)
                got = None
                if k[0] == "sym" and len(paths) == 1:
                    t = paths[0].ret
                    r2 = result_kind(tgt, tgt.eval_fn(tgt.method("to_char"), [t]))
                    got = chr(r2[1]) if r2[0] == "int" else None
                chk.ob("T-conv", "%s::from(Dna::%s)" % (nm, s.name), got == dchar[s.name],
                       "%s::from(Dna::%s) = %s displays as %r; the base displays as %r" % (nm, s.name, k, got, dchar[s.name]), fb["span"], sample={"dna": s.name, "to": got})
        # ---- text -> Dna ----
        tb = an.one(chk, "T-conv", bio, "dna::Dna::try_from(text::Dna)", name="try_from", trait="std::convert::TryFrom", self_re=r"^codec::dna::Dna$", targ_re=r"^codec::text::Dna$")
        if tb:
            for b in range(256):
                arg = ("agg", "codec::text::Dna", 0, "Dna", (I(b, "u8"),))
                k = result_kind(dn, dn.eval_fn(tb, [arg]))
                ch = chr(b)
                if ch in "ACGT":
                    chk.ob("T-conv/back", "byte %r" % ch, k == ("ok", [n for n, v in dchar.items() if v == ch][0]), "try_from(text %r) = %s; expected Ok of the same base" % (ch, k), tb["span"])
                else:
                    ok = k[0] == "err" and isinstance(k[1], tuple) and k[1][0] == "agg" and k[1][3] == "UnrecognisedBase" and k[1][4] == (I(b, "u8"),)
                    chk.ob("T-conv/back", "byte 0x%02x" % b, ok, "try_from(text 0x%02x %r) = %s; expected Err(UnrecognisedBase(0x%02x))" % (b, ch, k if k[0] != "err" else ("err", show(k[1])), b), tb["span"])
        # ---- sequence conversions ----
        CONVS = (("From<&SeqSlice<A>> for Seq<B>", r"^&seq::slice::SeqSlice<A>$", "&seq::slice::SeqSlice<A>"),
                 ("From<&SeqArray<A,N,W>> for Seq<B>", r"^&seq::array::SeqArray<A, N, W>$", "&seq::array::SeqArray<A, N, W>"),
                 ("From<SeqArray<A,N,W>> for Seq<B>", r"^seq::array::SeqArray<A, N, W>$", "seq::array::SeqArray<A, N, W>"))
        direct, pend = set(), []
        for what, targ, src in CONVS:
            b = an.one(chk, "S-conv", bio, what, name="from", trait="std::convert::From", self_re=r"^seq::Seq<B>$", targ_re=targ)
            if not b:
                continue
            paths, _ = an.analyse(cfg, b)
            r = [p for p in paths if p.end == "return"]
            x = pipes.map_collect_of(r[0].ret, "seq::Seq<B>", "std::convert::Into::into") if len(r) == 1 and not r[0].guards else None
            want = P(1) if "SeqSlice" in what else ("seqview", P(1))
            if x == want:
                direct.add(src)
            pend.append((what, b, r, x == want))
            nconv += 1
        for what, b, r, ok in pend:
            if not ok and len(r) == 1 and not r[0].guards:
                # one conversion may hand the same content to a sibling that is itself the pipeline (by value -> by reference)
                t = r[0].ret
                m = re.match(r"^CONV<(.+) -> seq::Seq<B>>$", t[1]) if isinstance(t, tuple) and t[0] == "call" else None
                ok = bool(m) and m.group(1) in direct and len(t[2]) == 1 and t[2][0] in (P(1), ("seqview", P(1)))
            chk.ob("S-conv", what, ok, "must be content.iter().map(Into::into).collect(); got " + (show(r[0].ret)[:200] if r else "?"), b["span"],
                   sample="Collect<Seq<B>>(Map(Iter(content), Into::into))")
        b = an.one(chk, "S-conv", bio, "From<&Vec<A>> for Seq<A>", name="from", trait="std::convert::From", self_re=r"^seq::Seq<A>$", targ_re=r"^&std::vec::Vec<A>$")
        if b:
            paths, _ = an.analyse(cfg, b)
            r = [p for p in paths if p.end == "return"]
            ok = False
            if len(r) == 1 and not r[0].guards:
                t = r[0].ret
                ok = an.is_call(t, re.compile(r"Iterator>::collect::<seq::Seq<A>>$")) and an.is_call(t[2][0], re.compile(r"Iterator>::copied::<")) and \
                    an.is_call(t[2][0][2][0], re.compile(r"^core::slice::<impl \[A\]>::iter$")) and show(t[2][0][2][0][2][0]) in ("arg1", "<std::vec::Vec<A> as std::ops::Deref>::deref(arg1)")
            chk.ob("S-conv", "From<&Vec<A>> for Seq<A>", ok, "must be vec.iter().copied().collect(); got " + (show(r[0].ret)[:200] if r else "?"), b["span"])
        # ---- trim_u8 (R21) ----
        b = an.one(chk, "R21", bio, "Seq::trim_u8", name="trim_u8", self_re=r"^seq::Seq<A>$", inherent=True)
        if b:
            check_trim(chk, cfg, b)
        # "displays as the same letters": the comparison is made on what Display prints, so the clause rests on Display being the
        # per-symbol to_char string of the whole content (C01's S-display rows) and on the iteration rows the conversions collect from
        import core
        core.import_rows(chk, cfg, "C01", "props.C01", ("S-display", "S-parse"))
        # conversions collect the source's symbols: iter() rows (C11) and one push per item (C06)
        core.import_rows(chk, cfg, "C11", "props.C11", ("G02", "G05c/into_iter", "S-glue"))
        core.import_rows(chk, cfg, "C06", "props.C06", ("S-extend", "R08"))
    import core as _core
    for cfg in ctx.configs():
        chk.cfg = cfg.name
        _core.import_codec_core(chk, cfg)      # the symbols' own tables (C05)
    chk.floor("sequence conversions", nconv, 3 * len(chk.configs))


U8_INDEX = re.compile(r"^core::slice::index::<impl std::ops::Index<std::ops::(Range|RangeFrom|RangeTo|RangeFull)(<usize>)?> for \[u8\]>::index$")


def u8_window(t):
    """a byte slice as a window of the input: (base, lo, hi) with hi None = to the end of base; nested re-slicing composes"""
    if isinstance(t, tuple) and t[0] == "call" and U8_INDEX.match(t[1]) and len(t[2]) == 2:
        inner = u8_window(t[2][0])
        if inner is None:
            return None
        base, lo, hi = inner
        kind = U8_INDEX.match(t[1]).group(1)
        r = t[2][1]
        if kind == "RangeFull":
            return inner
        if not (isinstance(r, tuple) and r[0] == "agg"):
            return None
        if kind == "Range":
            return (base, add(lo, r[4][0]), add(lo, r[4][1]))
        if kind == "RangeFrom":
            return (base, add(lo, r[4][0]), hi)
        if kind == "RangeTo":
            return (base, lo, add(lo, r[4][0]))
    if t == P(1):
        return (t, c(0), None)
    return None


def check_trim(chk, cfg, b):
    """trim_u8, decided per outcome of the two searches (position / rposition are matched as Some / None whether the code says
    unwrap_or / map_or or an explicit match):
      start = position(v.iter(), acceptable) -> Some(p): p, None: len(v) (or 0)
      end   = rposition(v[start..].iter(), acceptable) -> Some(q): start + q + 1, None: start
      result = strict parse of v[start..end]"""
    what = "Seq::trim_u8"
    paths, _ = an.analyse(cfg, b, policy=an.ForkPolicy())
    r = [p for p in paths if p.end == "return"]
    bad = [p for p in paths if p.end not in ("return", "panic")]
    if bad or not r:
        chk.cannot("R21", what, "unrecognised outcome: " + (bad[0].describe()[:160] if bad else "no returning path"), b["span"])
        return
    vlen = ("call", "core::slice::<impl [u8]>::len", (P(1),), None)
    viter = re.compile(r"^core::slice::<impl \[u8\]>::iter$")
    seen = set()
    oks = oke = okp = True
    why = []
    for p in r:
        pos = [x for x in p.calls if short(x[0]) == "position"]
        rpos = [x for x in p.calls if short(x[0]) == "rposition"]
        if len(pos) != 1 or len(rpos) != 1:
            chk.cannot("R21", what, "a returning path does not perform exactly one position and one rposition search", b["span"])
            return
        T1, T2 = pos[0][2], rpos[0][2]
        st = {}
        for g in p.guards:
            if g[0] == "sw" and isinstance(g[1], tuple) and g[1][0] == "discr" and g[1][1] in (T1, T2):
                v = g[3] if g[2] == "==" else (1 - g[3][0] if g[2] == "notin" and g[3] in ((0,), (1,)) else None)
                st[g[1][1]] = v
            elif g[0] != "sw" or not (isinstance(g[1], tuple) and g[1][0] == "discr"):
                oks = False
                why.append("extra condition " + str(g)[:80])
        if st.get(T1) not in (0, 1) or st.get(T2) not in (0, 1):
            chk.cannot("R21", what, "a returning path is not keyed by the outcomes of both searches: " + p.describe()[:200], b["span"])
            return
        seen.add((st[T1], st[T2]))
        ok1, d1 = pipes.is_accept_closure(cfg, pos[0][1][1])
        ok2, d2 = pipes.is_accept_closure(cfg, rpos[0][1][1])
        # the first search runs over the whole input
        src1 = pos[0][1][0]
        src1 = src1[2][2] if isinstance(src1, tuple) and src1[0] == "ref" else src1
        it1 = [x for x in p.calls if viter.match(x[0]) and x[1] == (P(1),)]
        start = F(("downcast", T1, 1, "Some"), "0") if st[T1] == 1 else None
        x, d = pipes.strict_parse_of(cfg, p.ret)
        win = u8_window(x) if x is not None else None
        if win is None or win[0] != P(1) or win[2] is None:
            okp = False
            why.append("result is not the strict parse of a sub-range of the input: " + d[:120])
            continue
        CN = lambda t: nf.canon(nf.Norm()(t))
        gs, ge = win[1], win[2]
        if st[T1] == 1:
            okstart = CN(gs) == CN(start)
        else:
            okstart = CN(gs) == CN(vlen) or CN(gs) == CN(c(0))
        if not (ok1 and okstart and len(it1) >= 1):
            oks = False
            why.append("start on %s: %s (predicate %s)" % ("Some" if st[T1] else "None", show(gs)[:60], d1))
        # the second search runs over v[start..] (however that tail is spelled)
        it2 = []
        for x2 in p.calls:
            if viter.match(x2[0]) and len(x2[1]) == 1:
                w2 = u8_window(x2[1][0])
                if w2 is not None and w2[0] == P(1) and w2[2] is None and CN(w2[1]) == CN(gs) and x2[1][0] != P(1):
                    it2.append(x2)
        if st[T1] == 0 and CN(gs) == CN(c(0)):
            it2 = it2 or [x2 for x2 in p.calls if viter.match(x2[0]) and x2[1] == (P(1),)]
        if st[T2] == 1:
            okend = CN(ge) == nf.canon(add(add(CN(gs), F(("downcast", T2, 1, "Some"), "0")), c(1)))
        else:
            okend = CN(ge) == CN(gs)
        if not (ok2 and okend and len(it2) >= 1):
            oke = False
            why.append("end on %s: %s (predicate %s)" % ("Some" if st[T2] else "None", show(ge)[:80], d2))
    full = seen == {(1, 1), (1, 0), (0, 1), (0, 0)} or seen == {(1, 1), (1, 0), (0, 0)} or seen == {(1, 1), (1, 0), (0, 1), (0, 0)}
    chk.ob("R21/start", what, oks and full, "start must be the first acceptable byte's position, or len (or 0) when there is none; %s; outcomes seen %s" % ("; ".join(why)[:300], sorted(seen)), b["span"],
           sample={"start": "position(acceptable) or len"})
    chk.ob("R21/end", what, oke and full, "end must be start + (last acceptable position in v[start..]) + 1, or start when there is none; %s" % "; ".join(why)[:300], b["span"])
    chk.ob("R21/parse", what, okp, "result must be the strict parse of v[start..end]; %s" % "; ".join(why)[:300], b["span"])
