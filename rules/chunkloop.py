"""Shape rules for the in-place per-symbol loops (DESIGN.md appendix E "In-place")."""
import re

import an
import nf
import xlate
from an import P, F, BITS, canon, short
from terms import show

CHUNKERS = ("chunks_exact_mut", "rchunks_exact_mut")
READS = ("len", "is_empty", "deref", "deref_mut", "index", "index_mut", "as_mut", "as_ref", "as_mut_bitslice", "as_bitslice")


def _loop_parts(cfg, b, policy=None):
    paths, _ = an.analyse(cfg, b, policy=policy)
    conts = [p for p in paths if p.end == "continue"]
    rets = [p for p in paths if p.end == "return"]
    other = [p for p in paths if p.end not in ("continue", "return", "panic")]
    return paths, conts, rets, other


def chunk_source(p, obj):
    """the `for` source must be an exact BITS-wide chunking of obj; returns (chunker name, ok)"""
    src = xlate.iter_source(p)
    if src is None:
        return None, False
    t = src
    if an.is_call(t, re.compile(r"ChunksExactMut::<.*>::remove_alias$|RChunksExactMut::<.*>::remove_alias$")):
        t = t[2][0]
    if t[0] == "call" and short(t[1]) in CHUNKERS:
        return short(t[1]), t[2][0] == obj and canon(t[2][1]) == canon(BITS)
    return short(t[1]) if t[0] == "call" else None, False


def symbol_loop(chk, cfg, b, rule, what, obj, symop, symtrait, paths_filter=None):
    """ForChunks(BITS, c -> store(c, to_bits(symop(unsafe_from_bits(load_le::<u8>(c))))))  on the whole of obj"""
    paths, conts, rets, other = _loop_parts(cfg, b)
    if paths_filter:
        conts, rets = [p for p in conts if paths_filter(p)], [p for p in rets if paths_filter(p)]
    if other or len(conts) != 1 or len(rets) != 1:
        chk.cannot(rule, what, "expected one loop with a single straight-line body; found %d iteration paths, %d exits" % (len(conts), len(rets)), b["span"])
        return False
    ex, it = rets[0], conts[0]
    name, oksrc = chunk_source(ex, obj)
    chk.ob(rule + "/chunking", what, oksrc, "the loop must run over an exact chunking of the whole content with chunk width BITS; it runs over %s(%s)" % (
        name, show(xlate.iter_source(ex))[:120] if xlate.iter_source(ex) else "?"), b["span"])
    # outside the loop nothing else touches the content
    extra = [short(k) for k, a, r, ev in an.calls_on(ex, obj) if short(k) not in READS + CHUNKERS]
    chk.ob(rule + "/only", what, not extra and not ex.stores, "other effects on the content outside the loop: %s %s" % (extra, [show(lv) for lv, _ in ex.stores]), b["span"])
    item, nxt = xlate.loop_item(it)
    if item is None:
        chk.cannot(rule, what, "loop element not recognised", b["span"])
        return False
    loads = [x for x in it.calls if re.search(r"BitField>::load", x[0])]
    stores = [x for x in it.calls if re.search(r"BitField>::store", x[0])]
    ops = [x for x in it.calls if x[0] == "<A as %s>::%s" % (symtrait, symop)]
    allops = [x for x in it.calls if re.match(r"^<A as (ComplementMut|MaskableMut)>::", x[0])]
    ok = len(loads) == 1 and len(stores) == 1 and len(ops) == 1 and len(allops) == 1
    desc = "load %s, op %s, store %s" % ([short(x[0]) for x in loads], [x[0] for x in allops], [short(x[0]) for x in stores])
    if ok:
        ld, st, op = loads[0], stores[0], ops[0]
        ok = bool(re.search(r"load_le::<u8>$", ld[0])) and ld[1] == (item,)
        # decoded symbol lives in a local that `op` mutates, then to_bits of the mutated symbol is stored into the SAME chunk
        val = st[1][1]
        okv = False
        v = val
        if v[0] == "cast":
            v = v[2]
        if an.is_call(v, "<A as codec::Codec>::to_bits"):
            s = v[2][0]
            if s[0] == "post" and s[1] == op[3].idx:
                d = s[2]
                okv = an.is_call(d, "<A as codec::Codec>::unsafe_from_bits", (ld[2],))
        ok = ok and okv and st[1][0] == item and re.search(r"::store(_le)?::<", st[0]) is not None
        desc += "; stored value " + show(val)[:160]
    chk.ob(rule, what, ok,
           "each chunk must be rewritten in place as to_bits(%s(unsafe_from_bits(load_le::<u8>(chunk)))); found %s" % (symop, desc), b["span"],
           sample={"anchor": what, "per_chunk": "store(chunk, to_bits(%s(unsafe_from_bits(load_le(chunk)))))" % symop})
    return ok and oksrc


def _facts_of(p, obj):
    """canonical comparison facts of a path, with `is_empty(obj)` read as bitlen(obj) == 0 / >= 1"""
    out = []
    blen = {(("bitlen", obj),): 1}
    for g in p.guards:
        if g[0] == "cmp":
            out.append((g[1], g[2]))
        elif g[0] == "bool" and an.is_call(g[1], re.compile(r"::is_empty$"), (obj,)):
            out.append((nf.pkey(blen), "Eq") if g[2] else (nf.pkey(nf.padd(blen, {(): 1}, -1)), "Ge"))
    return out


def _harmless_shortcut(p, obj):
    eff = [short(k) for k, a, r, ev in an.calls_on(p, obj) if short(k) not in READS + ("from_bitslice", "load_le", "to_bitvec", "hash", "eq", "is_empty")]
    facts = _facts_of(p, obj)
    if p.stores or [x for x in p.calls if short(x[0]) in ("next", "into_iter")]:
        return False
    if not eff:
        # nothing done: fine when the content is at most one symbol wide
        d = nf.padd({(BITS,): 1}, {(("bitlen", obj),): 1}, -1)      # BITS - bitlen >= 0
        return nf.entails(facts, d)
    if eff == ["reverse"]:
        # all bits reversed, no per-symbol pass: fine when a symbol is one bit
        d = nf.padd({(): 1}, {(BITS,): 1}, -1)                       # 1 - BITS >= 0
        return nf.entails(facts, d)
    return False


def reverse_loop(chk, cfg, b, rule, what, obj, paths_filter=None):
    """Then(reverse(obj), ForChunks(BITS, c -> reverse(c)))"""
    paths, conts, rets, other = _loop_parts(cfg, b)
    if paths_filter:
        conts, rets = [p for p in conts if paths_filter(p)], [p for p in rets if paths_filter(p)]
    # shortcuts before the loop are part of the same shape when they cannot change the result: returning untouched content that
    # holds at most one symbol (bitlen <= BITS, or empty), or reversing all bits and skipping the per-symbol pass for a 1-bit codec
    if len(rets) > 1 and len(conts) == 1 and not other:
        rets = [p for p in rets if not _harmless_shortcut(p, obj)]
    if other or len(conts) != 1 or len(rets) != 1:
        chk.cannot(rule, what, "expected one loop with a single straight-line body; found %d iteration paths, %d exits" % (len(conts), len(rets)), b["span"])
        return False
    ex, it = rets[0], conts[0]
    name, oksrc = chunk_source(ex, obj)
    eff = [short(k) for k, a, r, ev in an.calls_on(ex, obj) if short(k) not in READS + ("from_bitslice", "load_le", "to_bitvec", "hash", "eq")]
    # whole-content reverse happens exactly once and before the chunking
    okorder = eff[:1] == ["reverse"] and eff.count("reverse") == 1 and all(e in CHUNKERS for e in eff[1:]) and len(eff) == 2
    chk.ob(rule + "/whole", what, okorder and oksrc,
           "expected reverse(all bits) followed by a loop over an exact BITS-wide chunking of the whole content; effects on the content: %s, loop over %s" % (eff, name), b["span"])
    item, nxt = xlate.loop_item(it)
    body = [(short(x[0]), x[1]) for x in it.calls if short(x[0]) not in ("next",) and x[3].idx not in [y[3].idx for y in ex.calls]]
    okb = item is not None and body == [("reverse", (item,))]
    chk.ob(rule, what, okb, "each chunk must be reversed in place (restoring each symbol's bit order); loop body does %s" % [(n, [show(a)[:60] for a in ar]) for n, ar in body], b["span"],
           sample={"anchor": what, "shape": "reverse(bits); for c in %s(BITS) { reverse(c) }" % name})
    return okorder and oksrc and okb


def mut_slice_producers(cfg):
    """I-reach: safe public ways to obtain `&mut SeqSlice` (none today)"""
    prods = []
    for f in cfg.bio.fns:
        if not f["vis"].startswith("Public") or f.get("unsafe"):
            continue
        sig = f["sig"]
        ret = sig.split("->", 1)[1] if "->" in sig else ""
        if re.search(r"&('[a-z_]+ )?mut seq::slice::SeqSlice<", ret):
            prods.append(f["path"])
    for im in cfg.bio.impls:
        tr = im.get("trait") or ""
        if tr in ("std::ops::DerefMut", "std::ops::IndexMut", "std::convert::AsMut", "std::borrow::BorrowMut"):
            blob = (im.get("trait_ref") or "") + " " + (im.get("self_ty") or "")
            if "seq::slice::SeqSlice" in blob or "seq::Seq<" in blob or "SeqArray" in blob:
                prods.append("impl " + (im.get("trait_ref") or tr))
    return prods
