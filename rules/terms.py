"""Path-partitioned forward dataflow over MIR with a Herbrand-term value domain.

This is the one engine behind the table, guard/range, shape and invariant
rules (DESIGN.md E1, E3, E4, E5).  For a MIR body it propagates, along every
CFG path (trace partitioning at SwitchInt, bounded), an abstract environment
mapping each local to a *term* over the function's parameters, generic
constants and opaque calls.  Constants fold (that is SCCP when the argument is
a literal); everything else stays symbolic.  Loops are not unrolled: locals
assigned in a loop are widened to fresh atoms at the loop head and each
iteration path is summarised once ("continue" outcomes).  No solver is
involved and no code is executed.

Outcome of analysing a body: a list of Path objects
    guards  : [(term, value)]   branch facts taken, in order
    calls   : [CallEvent]       every call met, in order (callee, arg terms)
    stores  : [(lvalue term, value term)] writes through pointers to non-local memory
    asserts : compiler-inserted checks passed (overflow, bounds, div-by-zero)
    end     : 'return' | 'panic' | 'unreachable' | 'continue' | 'stuck'
    ret     : term (for 'return')
"""
import itertools
import re

MASKS = {"u8": 8, "u16": 16, "u32": 32, "u64": 64, "u128": 128, "usize": 64,
         "i8": 8, "i16": 16, "i32": 32, "i64": 64, "i128": 128, "isize": 64,
         "bool": 1, "char": 32}
SIGNED = {"i8", "i16", "i32", "i64", "i128", "isize"}


import os as _os
_COVER = set() if _os.environ.get("BSQ_COVER") else None


def _dump_cover():
    if _COVER is not None:
        with open(_os.environ["BSQ_COVER"], "a") as fh:
            for x in sorted(_COVER):
                fh.write(x + "\n")


import atexit as _atexit
_atexit.register(_dump_cover)


class Budget(Exception):
    pass


class CallEvent:
    __slots__ = ("callee", "key", "args", "result", "block", "line", "idx", "inlined", "macro", "dest_ty", "_renamed")

    def __init__(self, callee, key, args, block, line):
        self.callee = callee
        self.key = key
        self.args = args
        self.result = None
        self.block = block
        self.line = line
        self.idx = -1
        self.inlined = False
        self.macro = None
        self.dest_ty = None

    def __repr__(self):
        return "Call(%s %s)" % (self.key, [show(a) for a in self.args])


class Path:
    def __init__(self):
        self.guards = []
        self.calls = []
        self.stores = []
        self.asserts = []
        self.end = None
        self.ret = None
        self.panic = None
        self.blocks = []
        self.loops = []
        self.subs = []

    def clone(self):
        p = Path()
        p.guards = list(self.guards)
        p.calls = list(self.calls)
        p.stores = list(self.stores)
        p.asserts = list(self.asserts)
        p.blocks = list(self.blocks)
        p.loops = list(self.loops)
        p.subs = list(self.subs)
        return p


def I(v, ty):
    return ("int", v, ty)


def is_int(t):
    return isinstance(t, tuple) and t and t[0] == "int"


def wrap(v, ty):
    bits = MASKS.get(ty)
    if bits is None:
        return v
    v &= (1 << bits) - 1
    if ty in SIGNED and v >= 1 << (bits - 1):
        v -= 1 << bits
    return v


def show(t, depth=0):
    if not isinstance(t, tuple) or not t:
        return str(t)
    if depth > 12:
        return "…"
    k = t[0]
    d = depth + 1
    if k == "int":
        return "%s%s" % (t[1], "" if t[2] in ("usize", "bool") else "_" + t[2])
    if k == "param":
        return t[2] or "arg%d" % t[1]
    if k == "P":
        return "arg%d" % t[1]
    if k == "F":
        return "%s.%s" % (show(t[1], d), t[2])
    if k == "poly":
        import nf
        return "[" + nf.pshow(t[1]) + "]"
    if k in ("BITS", "K"):
        return k
    if k == "cg":
        return t[1]
    if k == "ac":
        return t[1]
    if k == "bin":
        return "(%s %s %s)" % (show(t[2], d), t[1], show(t[3], d))
    if k == "un":
        return "%s(%s)" % (t[1], show(t[2], d))
    if k == "cast":
        return "(%s as %s)" % (show(t[2], d), t[4])
    if k == "ref":
        return "&%s%s" % ("mut " if t[1] else "", show(t[2], d))
    if k == "deref":
        return "*%s" % show(t[1], d)
    if k == "field":
        return "%s.%s" % (show(t[1], d), t[3] if t[3] is not None else t[2])
    if k == "downcast":
        return "(%s as %s)" % (show(t[1], d), t[3])
    if k == "call":
        return "%s(%s)" % (t[1], ", ".join(show(a, d) for a in t[2]))
    if k == "post":
        return "post#%d(%s)" % (t[1], show(t[2], d))
    if k == "agg":
        nm = t[1].split("::")[-1] + ("::" + t[3] if t[3] else "")
        return "%s{%s}" % (nm, ", ".join(show(a, d) for a in t[4]))
    if k in ("tuple", "array"):
        return "%s(%s)" % (k, ", ".join(show(a, d) for a in t[1]))
    if k == "local":
        return "_%d" % t[1] if len(t) == 2 else "_%d@%d" % (t[1], t[2])
    if k == "val":
        return show(t[1], d)
    if k == "static":
        return "static:" + t[1]
    if k == "mem":
        return "mem[%d bytes]" % len(t[1])
    if k == "lfield":
        return "%s.%s" % (show(t[1], d), t[3] if t[3] is not None else t[2])
    if k == "discr":
        return "discr(%s)" % show(t[1], d)
    if k == "fn":
        return "fn:" + t[1]
    if k == "closure":
        return "closure:%s[%s]" % (t[1], ", ".join(show(a, d) for a in t[3]))
    if k == "constref":
        return "const:" + t[1]
    if k == "str":
        return repr(t[1])
    if k == "loopvar":
        if isinstance(t[1], int) and isinstance(t[2], int):
            return "loopvar(bb%d,_%d)" % (t[1], t[2])
        return "loopvar(%s,%s)" % (t[1] if not isinstance(t[1], tuple) else "/".join(str(x) for x in t[1]), show(t[2], d) if isinstance(t[2], tuple) else t[2])
    if k == "index":
        return "%s[%s]" % (show(t[1], d), show(t[2], d))
    return "%s(%s)" % (k, ", ".join(show(a, d) if isinstance(a, tuple) else str(a) for a in t[1:]))


def walk(t):
    """yield all sub-terms"""
    if isinstance(t, tuple):
        if t and isinstance(t[0], str):
            yield t
            for a in t[1:]:
                if isinstance(a, tuple):
                    yield from walk(a)
        else:
            for a in t:
                if isinstance(a, tuple):
                    yield from walk(a)


def contains(t, pred):
    return any(pred(s) for s in walk(t))


class Engine:
    """Analyses bodies of one or several crates (facts.Crate objects)."""

    def __init__(self, crates, max_paths=3000, max_depth=4):
        self.crates = crates if isinstance(crates, (list, tuple)) else [crates]
        self.max_paths = max_paths
        self.max_depth = max_depth
        self.fn_text = {}
        self.ac_def = {}
        self.adts = {}
        self.evals = {}
        self.by_path = {}
        self.by_id = {}
        for c in self.crates:
            self.adts.update(c.adts)
            for k, v in c.evals.items():
                self.evals.setdefault(k, []).extend(v)
            for k, v in c.by_path.items():
                self.by_path.setdefault(k, []).extend(v)
            self.by_id.update(c.by_id)
        self._loopinfo = {}
        self.ids = itertools.count(1)
        self.stats = {"bodies": 0, "paths": 0, "calls": 0, "inlined": 0}

    # ---------- CFG helpers ----------
    @staticmethod
    def succs(bl):
        t = bl["term"]
        k = t["k"]
        if k in ("goto", "drop", "assert"):
            return [t["t"]]
        if k == "switch":
            return [b for _, b in t["targets"]] + [t["otherwise"]]
        if k == "call":
            return [t["t"]] if t["t"] is not None else []
        return []

    def loopinfo(self, body):
        key = body["id"]
        if key in self._loopinfo:
            return self._loopinfo[key]
        blocks = body["blocks"]
        n = len(blocks)
        color = [0] * n
        back = []
        stack = [(0, iter(self.succs(blocks[0])))]
        color[0] = 1
        while stack:
            u, it = stack[-1]
            adv = False
            for v in it:
                if color[v] == 0:
                    color[v] = 1
                    stack.append((v, iter(self.succs(blocks[v]))))
                    adv = True
                    break
                elif color[v] == 1:
                    back.append((u, v))
            if not adv:
                color[u] = 2
                stack.pop()
        preds = {i: [] for i in range(n)}
        for i in range(n):
            if blocks[i]["cleanup"]:
                continue
            for s in self.succs(blocks[i]):
                preds[s].append(i)
        loops = {}
        for u, h in back:
            bodyset = loops.setdefault(h, {h})
            work = [u]
            while work:
                x = work.pop()
                if x in bodyset:
                    continue
                bodyset.add(x)
                work.extend(preds[x])
        assigned = {}
        for h, bs in loops.items():
            a = set()
            for b in bs:
                for s in blocks[b]["stmts"]:
                    if s["k"] == "assign":
                        a.add(s["p"]["l"])
                        rv = s["rv"]
                        if rv["k"] in ("ref", "rawptr") and (rv.get("mut") or "Mut" in rv.get("kind", "")):
                            pr = rv["p"]["proj"]
                            if not pr or pr[0]["k"] != "deref":
                                a.add(rv["p"]["l"])
                t = blocks[b]["term"]
                if t["k"] == "call":
                    a.add(t["dest"]["l"])
                    for arg in t["args"]:
                        pass
            assigned[h] = a
        info = {"headers": loops, "assigned": assigned}
        self._loopinfo[key] = info
        return info

    # ---------- evaluation of operands / places ----------
    def const_term(self, c):
        if c.get("fn"):
            t = ("fn", c["fn"], tuple(c.get("fn_args", ())))
            self.fn_text[t] = c.get("text") or c["fn"]
            return t
        ty = c["ty"]
        if c.get("val") is not None:
            return I(int(c["val"]), ty)
        if ty == "()":
            return ("unit",)
        if c.get("str") is not None:
            return ("str", c["str"])
        if c.get("static_ref"):
            return ("ref", False, ("static", c["static_ref"]))
        if c.get("mem_bytes") is not None:
            return ("ref", False, ("mem", tuple(c["mem_bytes"]), ty))
        if c.get("param"):
            return ("cg", c["param"])
        if c.get("def"):
            args = tuple(c.get("def_args", ()))
            if c.get("promoted") is not None:
                return self.promoted_value(c["def"], c["promoted"], args)
            # concrete named const with an evaluated value?
            ev = self.evals.get(c["def"])
            if ev and not args:
                for e in ev:
                    if "val" in e:
                        return I(int(e["val"]), ty)
                    if "bytes" in e and (e.get("ty") or "").startswith("[u8;"):
                        return ("constref", c["def"])
            if not args:
                # any other crate-local const (a lookup table of enum values, a reference to a byte string): its initialiser,
                # interpreted like a promoted constant
                v = self.const_body_value(c["def"])
                if v is not None:
                    return v
            if ev and not args:
                for e in ev:
                    if "bytes" in e:
                        return ("constref", c["def"])
            text = c["text"]
            # `<X as Trait>::C` with concrete X: look up by text
            ev = self.evals.get(text)
            if ev:
                for e in ev:
                    if "val" in e:
                        return I(int(e["val"]), ty)
                    if "bytes" in e:
                        return ("constref", text)
            self.ac_def[text] = c["def"]
            return ("ac", text, args)
        if c.get("tyconst"):
            return ("cg", c["tyconst"])
        # zero-sized values such as PhantomData
        return ("zst", c["text"])

    def const_body_value(self, path):
        """value of a non-generic crate-local `const` item, by interpreting its initialiser (one path, no panics, no unknowns)"""
        cache = self.__dict__.setdefault("_constvals", {})
        if path in cache:
            return cache[path]
        cache[path] = None
        bs = [b for b in self.by_path.get(path, []) if b["kind"].startswith("Const") and not _tygens_of(b)]
        if len(bs) == 1:
            try:
                outs = Analysis(self, InlineConst()).run(bs[0], [])
            except Budget:
                outs = []
            rets = [o for o in outs if o.end == "return"]
            if len(rets) == 1 and len(outs) == 1 and not rets[0].guards and \
                    not contains(rets[0].ret, lambda t: t[0] in ("unk", "uninit", "call", "index", "ac")):
                cache[path] = rets[0].ret
        return cache[path]

    def promoted_value(self, owner, idx, args):
        """evaluate a promoted constant of `owner` (a tiny straight-line body)"""
        key = (owner, idx)
        cache = self.__dict__.setdefault("_promoted", {})
        if key in cache:
            return cache[key]
        r = ("promoted", owner, idx, args)
        cache[key] = r
        for b in self.by_path.get(owner, []):
            for pb in b.get("promoted", []):
                if pb["index"] == idx:
                    body = {"id": b["id"] + "#promoted%d" % idx, "path": owner + "::{promoted#%d}" % idx, "arg_count": 0,
                            "locals": pb["locals"], "blocks": pb["blocks"], "kind": "Promoted", "vis": "", "impl": None}
                    try:
                        outs = Analysis(self, Policy()).run(body, [])
                    except Budget:
                        outs = []
                    rets = [o for o in outs if o.end == "return"]
                    if len(rets) == 1 and len(outs) == 1:
                        r = rets[0].ret
        cache[key] = r
        return r

    def project(self, base, i, name, ty=None):
        if isinstance(base, tuple):
            if base[0] == "agg" and i < len(base[4]):
                return base[4][i]
            if base[0] == "tuple" and i < len(base[1]):
                return base[1][i]
            if base[0] == "closure" and i < len(base[3]):
                return base[3][i]
            if base[0] == "downcast" and base[1][0] == "agg":
                return self.project(base[1], i, name, ty)
            if base[0] == "upd":
                # a field of a value one of whose fields was overwritten
                return base[3] if base[2] == i else self.project(base[1], i, name, ty)
        return ("field", base, i, name, ty)

    def adt_variant_discr(self, adt_path, vidx):
        if adt_path == "std::cmp::Ordering":
            return (-1, 0, 1)[vidx]
        a = self.adts.get(adt_path)
        if a and a["kind"] == "enum":
            d = a["variants"][vidx]["discr"]
            return int(d) if d is not None else vidx
        return vidx

    def variant_by_discr(self, adt_path, val):
        a = self.adts.get(adt_path)
        if not a or a["kind"] != "enum":
            return None
        for i, v in enumerate(a["variants"]):
            if v["discr"] is not None and int(v["discr"]) == val:
                return i, v["name"]
        return None


class Frame:
    """One activation: environment + heap for a body on one path."""

    def __init__(self, eng, body, args, depth, policy, parent=None):
        self.eng = eng
        self.body = body
        self.depth = depth
        self.policy = policy
        self.env = {}
        self.heap = {}
        # frame identity: locals of an inlined callee are distinct objects from the caller's locals
        self.fid = 0 if parent is None else next(eng.ids)
        self.parent_view = {}
        if parent is not None:
            self.parent_view = dict(parent.parent_view)
            self.parent_view[parent.fid] = parent.env
        self.foreign_writes = {} if parent is None else dict(parent.foreign_writes)
        self.envs = {} if parent is None else dict(parent.envs)
        n = body["arg_count"]
        for i in range(1, n + 1):
            if i - 1 < len(args) and args[i - 1] is not None:
                self.env[i] = args[i - 1]
            else:
                self.env[i] = ("param", i, body["locals"][i]["name"])
        self.active_loops = ()

    def clone(self):
        f = Frame.__new__(Frame)
        f.eng = self.eng
        f.body = self.body
        f.depth = self.depth
        f.policy = self.policy
        f.env = dict(self.env)
        f.heap = dict(self.heap)
        f.active_loops = self.active_loops
        f.fid = self.fid
        f.parent_view = self.parent_view
        f.foreign_writes = dict(self.foreign_writes)
        f.envs = dict(self.envs)
        return f

    def loc(self, n):
        return ("local", n) if self.fid == 0 else ("local", n, self.fid)

    def _fid_of(self, lv):
        return lv[2] if len(lv) > 2 else 0

    # ----- lvalues -----
    def lv_of(self, place):
        """Return an lvalue term for a MIR place."""
        cur = self.loc(place["l"])
        for e in place["proj"]:
            k = e["k"]
            if k == "deref":
                v = self.read_lv(cur)
                if isinstance(v, tuple) and v[0] == "ref":
                    cur = v[2]
                else:
                    cur = ("deref", v)
            elif k == "field":
                if cur[0] in ("local", "lfield", "ldowncast", "lindex"):
                    cur = ("lfield", cur, e["i"], e.get("name"), e.get("ty"))
                else:
                    cur = ("field", cur, e["i"], e.get("name"), e.get("ty"))
            elif k == "downcast":
                if cur[0] in ("local", "lfield", "ldowncast", "lindex"):
                    cur = ("ldowncast", cur, e["v"], e.get("name"))
                else:
                    cur = ("downcast", cur, e["v"], e.get("name"))
            elif k == "index":
                idx = self.env.get(e["l"], ("unk", "idx"))
                if cur[0] in ("local", "lfield", "ldowncast", "lindex") and is_int(idx):
                    bv = self.read_lv(cur)
                    if isinstance(bv, tuple) and bv[0] == "array" and 0 <= idx[1] < len(bv[1]):
                        cur = ("lindex", cur, idx[1])      # an element of a local array of known contents
                        continue
                cur = ("index", self.read_lv(cur) if cur[0] in ("local", "lfield", "ldowncast", "lindex") else cur, idx)
            else:
                cur = ("proj", cur, str(e))
        return cur

    def read_lv(self, lv):
        k = lv[0]
        if k == "val":
            return lv[1]
        if k == "local":
            if self._fid_of(lv) == self.fid:
                return self.env.get(lv[1], ("uninit", lv[1]))
            # a local of an ancestor frame (reached through a reference passed to this inlined callee)
            if lv in self.foreign_writes:
                return self.foreign_writes[lv]
            env = self.parent_view.get(self._fid_of(lv))
            if env is None:
                env = self.envs.get(self._fid_of(lv))
            return env.get(lv[1], ("uninit", lv[1])) if env is not None else ("foreign", lv)
        if k == "lfield":
            return self.eng.project(self.read_lv(lv[1]), lv[2], lv[3], lv[4] if len(lv) > 4 else None)
        if k == "ldowncast":
            b = self.read_lv(lv[1])
            if isinstance(b, tuple) and b[0] == "agg":
                return b
            return ("downcast", b, lv[2], lv[3])
        if k == "lindex":
            b = self.read_lv(lv[1])
            if isinstance(b, tuple) and b[0] == "array" and lv[2] < len(b[1]):
                return b[1][lv[2]]
            return self.index_val(b, I(lv[2], "usize"))
        if k == "index":
            base, idx = lv[1], lv[2]
            if lv in self.heap:
                return self.heap[lv]
            return self.index_val(base, idx)
        if lv in self.heap:
            return self.heap[lv]
        # value-denoting lvalue (memory behind a parameter): simplify projections
        if k == "field":
            b = self.read_lv(lv[1]) if lv[1] in self.heap or lv[1][0] in ("field", "deref", "downcast", "val") else lv[1]
            return self.eng.project(b, lv[2], lv[3], lv[4] if len(lv) > 4 else None)
        if k == "deref":
            return lv
        if k == "downcast":
            b = self.read_lv(lv[1]) if lv[1][0] in ("field", "deref", "downcast") else lv[1]
            if isinstance(b, tuple) and b[0] == "agg":
                return b
            return ("downcast", b, lv[2], lv[3])
        return lv

    def index_val(self, base, idx):
        if isinstance(base, tuple) and base[0] == "array" and is_int(idx):
            return base[1][idx[1]]
        if isinstance(base, tuple) and base[0] == "constref" and is_int(idx):
            for e in self.eng.evals.get(base[1], []):
                if "bytes" in e and e["ty"].startswith("[u8;"):
                    return I(e["bytes"][idx[1]], "u8")
        if isinstance(base, tuple) and base[0] == "mem" and is_int(idx) and re.match(r"^&?('\w+ )?\[u8(; \d+)?\]$", base[2] or "") and 0 <= idx[1] < len(base[1]):
            return I(base[1][idx[1]], "u8")        # a byte-string literal: b"ACGT"[i]
        return ("index", base, idx)

    def write_lv(self, lv, val, path):
        k = lv[0]
        if k == "local":
            if self._fid_of(lv) == self.fid:
                self.env[lv[1]] = val
            else:
                self.foreign_writes[lv] = val
            return
        if k in ("lfield",):
            base = self.read_lv(lv[1])
            i = lv[2]
            if isinstance(base, tuple) and base[0] == "tuple":
                ops = list(base[1])
                while len(ops) <= i:
                    ops.append(("uninit", 0))
                ops[i] = val
                self.write_lv(lv[1], ("tuple", tuple(ops)), path)
                return
            if isinstance(base, tuple) and base[0] == "agg":
                ops = list(base[4])
                while len(ops) <= i:
                    ops.append(("uninit", 0))
                ops[i] = val
                self.write_lv(lv[1], base[:4] + (tuple(ops),), path)
                return
            if isinstance(base, tuple) and base[0] == "closure" and i < len(base[3]):
                # a by-value capture updated inside the closure (`move || { bv.truncate(n); Seq { bv, .. } }`)
                ops = list(base[3])
                ops[i] = val
                self.write_lv(lv[1], base[:3] + (tuple(ops),) + base[4:], path)
                return
            if isinstance(base, tuple) and base[0] == "uninit":
                ops = [("uninit", 0)] * (i + 1)
                ops[i] = val
                self.write_lv(lv[1], ("tuple", tuple(ops)), path)
                return
            self.write_lv(lv[1], ("upd", base, i, val), path)
            return
        if k == "ldowncast":
            self.write_lv(lv[1], val, path)
            return
        if k == "lindex":
            base = self.read_lv(lv[1])
            if isinstance(base, tuple) and base[0] == "array" and lv[2] < len(base[1]):
                ops = list(base[1])
                ops[lv[2]] = val
                self.write_lv(lv[1], ("array", tuple(ops)), path)
            else:
                self.write_lv(lv[1], ("upd", base, lv[2], val), path)
            return
        # non-local memory
        self.heap[lv] = val
        path.stores.append((lv, val))

    def read_place(self, place):
        if not place["proj"]:
            return self.env.get(place["l"], ("uninit", place["l"]))
        return self.read_lv(self.lv_of(place))

    def operand(self, o):
        k = o["k"]
        if k in ("copy", "move"):
            return self.read_place(o["p"])
        if k == "const":
            return self.eng.const_term(o)
        return ("unk", "operand")

    # ----- rvalues -----
    def binop(self, op, a, b, aty):
        base = op.replace("WithOverflow", "").replace("Unchecked", "")
        if is_int(a) and is_int(b):
            x, y = a[1], b[1]
            ty = a[2]
            r = None
            cmpops = {"Eq": x == y, "Ne": x != y, "Lt": x < y, "Le": x <= y, "Gt": x > y, "Ge": x >= y}
            if base in cmpops:
                return I(1 if cmpops[base] else 0, "bool")
            try:
                if base == "Add":
                    r = x + y
                elif base == "Sub":
                    r = x - y
                elif base == "Mul":
                    r = x * y
                elif base == "Div":
                    r = abs(x) // abs(y) * (1 if (x >= 0) == (y >= 0) else -1) if y != 0 else None
                elif base == "Rem":
                    r = (abs(x) % abs(y)) * (1 if x >= 0 else -1) if y != 0 else None
                elif base == "BitAnd":
                    r = x & y
                elif base == "BitOr":
                    r = x | y
                elif base == "BitXor":
                    r = x ^ y
                elif base == "Shl":
                    r = x << (y % MASKS.get(ty, 64))
                elif base == "Shr":
                    r = x >> (y % MASKS.get(ty, 64))
            except Exception:
                r = None
            if r is not None:
                w = wrap(r, ty)
                if op.endswith("WithOverflow"):
                    return ("tuple", (I(w, ty), I(1 if w != r else 0, "bool")))
                return I(w, ty)
        if op.endswith("WithOverflow"):
            return ("tuple", (("bin", base, a, b), ("ovf", base, a, b)))
        if base in ("Eq", "Ne", "Le", "Ge", "Lt", "Gt") and a == b and not contains(a, lambda s: s[0] in ("unk", "uninit")):
            return I(1 if base in ("Eq", "Le", "Ge") else 0, "bool")
        return ("bin", base, a, b)

    def cast(self, ck, a, fromty, toty):
        if ck in ("IntToInt",) and is_int(a):
            return I(wrap(a[1], toty), toty)
        if ck == "IntToInt" and isinstance(a, tuple) and a[0] == "agg":
            # enum as integer
            if not a[4]:
                return I(wrap(self.eng.adt_variant_discr(a[1], a[2]), toty), toty)
        if ck == "Transmute" or ck.startswith("Transmute"):
            if is_int(a) and toty in self.eng.adts:
                v = self.eng.variant_by_discr(toty, a[1])
                if v is None:
                    return ("invalid_enum", toty, a[1])
                return ("agg", toty, v[0], v[1], ())
            if toty == fromty:
                return a
        if ck.startswith("PtrToPtr") or ck.startswith("PointerCoercion"):
            return ("cast", ck.split("(")[0], a, fromty, toty)
        if ck == "IntToInt" and fromty == toty:
            return a
        return ("cast", ck.split("(")[0], a, fromty, toty)

    def rvalue(self, rv, path):
        k = rv["k"]
        if k == "use":
            return self.operand(rv["op"])
        if k == "binop":
            x, y = self.operand(rv["a"]), self.operand(rv["b"])
            if rv["op"] in ("Sub", "SubWithOverflow", "SubUnchecked") and rv.get("aty") in UNSIGNED and not (is_int(x) and is_int(y)) and path is not None:
                # an unsigned subtraction: it panics (overflow checks) or wraps unless x >= y - the caller of the analysis decides
                path.subs.append((x, y, rv.get("aty"), rv.get("line")))
            return self.binop(rv["op"], x, y, rv.get("aty"))
        if k == "unop":
            a = self.operand(rv["a"])
            op = rv["op"]
            if is_int(a):
                if op == "Not":
                    if a[2] == "bool":
                        return I(1 - a[1], "bool")
                    return I(wrap(~a[1], a[2]), a[2])
                if op == "Neg":
                    return I(wrap(-a[1], a[2]), a[2])
            if op == "PtrMetadata":
                return ("un", "PtrMetadata", a)
            if op == "Not" and isinstance(a, tuple) and a[0] == "un" and a[1] == "Not":
                return a[2]
            return ("un", op, a)
        if k == "cast":
            return self.cast(rv["ck"], self.operand(rv["op"]), rv["from"], rv["ty"])
        if k == "ref":
            lv = self.lv_of(rv["p"])
            if not rv["mut"] and lv[0] in ("local", "lfield", "ldowncast"):
                # shared borrow of a local: snapshot the value (it cannot change while the borrow lives)
                return ("ref", False, ("val", self.read_lv(lv)))
            return ("ref", rv["mut"], lv)
        if k == "rawptr":
            return ("ref", "Mut" in rv.get("kind", ""), self.lv_of(rv["p"]))
        if k == "discr":
            v = self.read_place(rv["p"])
            return self.discr(v)
        if k == "aggregate":
            ops = tuple(self.operand(o) for o in rv["ops"])
            ak = rv["ak"]
            if ak == "tuple":
                return ("tuple", ops)
            if ak == "array":
                return ("array", ops)
            if ak == "adt":
                return ("agg", rv["adt"], rv["variant"], rv["vname"], ops)
            if ak == "closure":
                return ("closure", rv["closure"], rv.get("closure_id"), ops)
            return ("aggother", rv.get("text"), ops)
        if k == "repeat":
            n = rv["n"]
            try:
                n = int(n)
            except (TypeError, ValueError):
                n = None
            if n is not None and 0 <= n <= 4096:
                return ("array", (self.operand(rv["op"]),) * n)
            return ("repeat", self.operand(rv["op"]), rv["n"])
        return ("unk", "rvalue:" + k)

    STD_DISCR = {"std::option::Option": None, "std::result::Result": None}

    def discr(self, v):
        if isinstance(v, tuple):
            if v[0] == "agg":
                return I(self.eng.adt_variant_discr(v[1], v[2]), "isize")
            if v[0] == "downcast":
                return self.discr(v[1])
        return ("discr", v)


class Analysis:
    """Runs one body, producing paths."""

    def __init__(self, eng, policy=None):
        self.eng = eng
        self.policy = policy or Policy()
        self.npaths = 0

    def run(self, body, args=(), depth=0, init_env=None, parent=None):
        self.eng.stats["bodies"] += 1
        if _COVER is not None:
            _COVER.add(body.get("path", "?"))
        frame = Frame(self.eng, body, list(args), depth, self.policy, parent)
        if init_env:
            frame.env.update(init_env)
        out = []
        self._exec(frame, 0, Path(), out)
        self.eng.stats["paths"] += len(out)
        return out

    def _exec(self, frame, bb, path, out):
        body = frame.body
        blocks = body["blocks"]
        li = self.eng.loopinfo(body)
        work = [(frame, bb, path)]
        while work:
            frame, bb, path = work.pop()
            while True:
                if len(out) + len(work) > self.eng.max_paths:
                    raise Budget("path budget exceeded in " + body["path"])
                # loop handling
                if bb in li["headers"]:
                    if bb in frame.active_loops:
                        path.end = "continue"
                        path.loop_header = bb
                        self._seal(path, frame)
                        out.append(path)
                        break
                    frame.active_loops = frame.active_loops + (bb,)
                    path.loops.append(bb)
                    for l in li["assigned"][bb]:
                        if l in frame.env:
                            frame.env[l] = ("loopvar", bb, l, frame.env[l])
                path.blocks.append(bb)
                bl = blocks[bb]
                for s in bl["stmts"]:
                    if s["k"] == "assign":
                        v = frame.rvalue(s["rv"], path)
                        frame.write_lv(frame.lv_of(s["p"]) if s["p"]["proj"] else frame.loc(s["p"]["l"]), v, path)
                    elif s["k"] == "setdiscr":
                        pass
                t = bl["term"]
                k = t["k"]
                if k == "goto":
                    bb = t["t"]
                    continue
                if k == "drop":
                    bb = t["t"]
                    continue
                if k == "return":
                    path.end = "return"
                    path.ret = frame.env.get(0, ("unit",))
                    path.heap = frame.heap
                    self._seal(path, frame)
                    out.append(path)
                    break
                if k == "unreachable":
                    path.end = "unreachable"
                    out.append(path)
                    break
                if k == "assert":
                    c = frame.operand(t["cond"])
                    if is_int(c):
                        if bool(c[1]) != t["expected"]:
                            path.end = "panic"
                            path.panic = ("assert", t["msgtext"])
                            out.append(path)
                            break
                    else:
                        path.asserts.append((c, t["expected"], t["msgtext"], t["line"]))
                    bb = t["t"]
                    continue
                if k == "switch":
                    d = frame.operand(t["op"])
                    if is_int(d):
                        tgt = t["otherwise"]
                        for v, b in t["targets"]:
                            if wrap(v, d[2]) == d[1] or v == d[1]:
                                tgt = b
                                break
                        bb = tgt
                        continue
                    # fork
                    vals = [v for v, _ in t["targets"]]
                    isbool = t["opty"] == "bool"
                    forks = []
                    for v, b in t["targets"]:
                        forks.append((b, (d, ("==", (v != 0) if isbool else v))))
                    if isbool and vals == [0]:
                        forks.append((t["otherwise"], (d, ("==", True))))
                    else:
                        forks.append((t["otherwise"], (d, ("notin", tuple(vals)))))
                    # prune statically-dead otherwise (unreachable block)
                    for b, g in reversed(forks):
                        if blocks[b]["term"]["k"] == "unreachable" and not blocks[b]["stmts"]:
                            continue
                        if self._contradicts(path, g):
                            continue
                        f2 = frame.clone()
                        p2 = path.clone()
                        p2.guards.append(g + (t.get("line"),))
                        self._refine(f2, g)
                        work.append((f2, b, p2))
                    break
                if k == "call":
                    res = self._call(frame, t, path, bb)
                    if res is None:
                        out.append(path)
                        break
                    if isinstance(res, tuple):
                        # forked by inlining
                        for p2 in res[2]:
                            out.append(p2)
                        for f2, p2 in res[1]:
                            work.append((f2, t["t"], p2))
                        break
                    bb = t["t"]
                    continue
                path.end = "stuck"
                path.panic = ("terminator", k)
                out.append(path)
                break

    @staticmethod
    def _seal(path, frame):
        path.env = frame.env
        path.fid = frame.fid
        path.foreign_writes = frame.foreign_writes
        path.envs = dict(frame.envs)

    @staticmethod
    def _contradicts(path, g):
        d, (op, v) = g[0], g[1]
        for g0 in path.guards:
            if g0[0] == d:
                op0, v0 = g0[1]
                if op0 == "==" and op == "==" and v0 != v:
                    return True
                if op0 == "==" and op == "notin" and v0 in v:
                    return True
                if op0 == "notin" and op == "==" and v in v0:
                    return True
        return False

    def _refine(self, frame, g):
        """Use a branch fact to refine the environment (variant knowledge)."""
        d, (op, v) = g[0], g[1]
        return

    # ---------- calls ----------
    def _call(self, frame, t, path, bb, override=None):
        f = t["func"]
        args = [frame.operand(a) for a in t["args"]]
        if override is not None:
            f, args = override
        elif "indirect" in f:
            # a call through a function pointer whose value is known (a function item or closure passed down to an inlined helper)
            try:
                fv = frame.operand(f["indirect"])
            except Exception:
                fv = None
            n = 0
            while isinstance(fv, tuple) and fv[0] == "cast" and n < 3:
                fv = fv[2]
                n += 1
            if isinstance(fv, tuple) and fv[0] == "fn":
                f = self._fn_callee(fv)
            elif isinstance(fv, tuple) and fv[0] == "closure" and getattr(self.policy, "higher_order", True):
                r = self._apply(frame, t, path, bb, fv, args)
                if r is not None:
                    return r
        if "indirect" in f:
            key = "<indirect>"
        else:
            key = f.get("resolved_text") or f["text"]
        ev = CallEvent(f, key, args, bb, t.get("line"))
        ev.macro = t.get("macro")
        ev.dest_ty = frame.body["locals"][t["dest"]["l"]]["ty"] if not t["dest"]["proj"] else None
        self.eng.stats["calls"] += 1
        # diverging call = panic
        if t["t"] is None:
            ev.idx = next(self.eng.ids)
            path.calls.append(ev)
            path.end = "panic"
            msg = None
            for a in args:
                for s in walk(a):
                    if s[0] == "str":
                        msg = s[1]
                        break
                if msg:
                    break
            path.panic = (key, msg, ev.macro)
            return None
        # model rows
        r = self.policy.model(self, frame, ev, path)
        if isinstance(r, tuple) and r and r[0] == "DIVERGE":
            ev.idx = next(self.eng.ids)
            path.calls.append(ev)
            path.end = "panic"
            path.panic = r[1]
            return None
        if r is not None:
            ev.result = r
            ev.idx = next(self.eng.ids)
            ev.inlined = "model"
            path.calls.append(ev)
            self._assign_dest(frame, t, r, path)
            return True
        # calls through function values, iterator adaptors taking closures, std combinators on symbolic values
        if override is None and getattr(self.policy, "higher_order", True):
            r = self._higher_order(frame, t, ev, path, bb)
            if r is not None:
                return r
        elif override is not None and getattr(self.policy, "fork_std", False) and "indirect" not in f:
            # a std combinator passed as a function value (`.and_then(Option::as_ref)`)
            r = self._fork_std(frame, t, ev, path, bb)
            if r is not None:
                return r
        # inline crate-local callee?
        target = self._local_body(f)
        if target is not None and frame.depth < self.eng.max_depth and self.policy.inline(f, target, frame.depth):
            self.eng.stats["inlined"] += 1
            sub = Analysis(self.eng, self.policy)
            outs = sub.run(target, args, frame.depth + 1, parent=frame)
            # a generic helper names its type parameters its own way (`T`, `F`): present its calls in the caller's terms
            gens, gargs = target.get("generics") or [], f.get("resolved_args") or f.get("args") or []
            gmap = {g: a for g, a in zip(gens, gargs) if g != a and not g.startswith("'") and re.match(r"^\w+$", g)}
            if gmap:
                outs = [_rename_generics(o, gmap) for o in outs]
            return self._merge_outs(frame, t, path, outs, target["path"])
        return self._opaque(frame, t, ev, path, key, args)

    def _merge_outs(self, frame, t, path, outs, tpath, wrap=None, guard=None, as_iteration=None, pre_calls=(), ret_split=None):
        """continue the caller along every outcome of an inlined body (callee, closure or desugared adaptor)"""
        if True:
            res = []
            for o in outs:
                p2 = path.clone()
                if guard is not None:
                    p2.guards.append(guard)
                p2.calls.extend(pre_calls)
                p2.guards += o.guards
                for c in o.calls:
                    p2.calls.append(c)
                p2.asserts += o.asserts
                p2.subs += getattr(o, "subs", [])
                p2.loops += [("inl", tpath, h) for h in o.loops]
                f2 = frame.clone()
                # the callee's environment stays addressable (its locals may occur in returned terms)
                if getattr(o, "env", None) is not None:
                    f2.envs[o.fid] = o.env
                    f2.envs.update(getattr(o, "envs", {}))
                # writes the callee made through references into this (or an outer) frame
                for lv, val in getattr(o, "foreign_writes", {}).items():
                    f2.write_lv(lv, val, p2)
                for lv, val in o.stores:
                    if lv[0] != "local":
                        f2.write_lv(lv, val, p2)
                if o.end == "return" and ret_split is not None:
                    # a short-circuiting adaptor (all / any): the closure's result decides between "next element" and "stop with a value"
                    for g, action in ret_split(o.ret):
                        f3, p3 = f2.clone(), p2.clone()
                        if g is not None:
                            if self._contradicts(p3, g):
                                continue
                            p3.guards.append(g + (t.get("line"),))
                        if action == "iter":
                            p3.end = "continue"
                            p3.loop_header = as_iteration
                            self._seal(p3, f3)
                            res.append((None, p3))
                        else:
                            self._assign_dest(f3, t, action[1], p3)
                            res.append((f3, p3))
                elif o.end == "return" and as_iteration is not None:
                    # the body of a desugared `for_each`: one iteration of a loop of the caller
                    p2.end = "continue"
                    p2.loop_header = as_iteration
                    self._seal(p2, f2)
                    res.append((None, p2))
                elif o.end == "return":
                    self._assign_dest(f2, t, wrap(o.ret) if wrap else o.ret, p2)
                    res.append((f2, p2))
                elif o.end == "continue":
                    # one iteration of a loop inside the inlined callee: an iteration summary of the caller too
                    p2.end = "continue"
                    p2.loop_header = ("inl", tpath, o.loop_header)
                    self._seal(p2, f2)
                    res.append((None, p2))
                else:
                    p2.end = o.end
                    p2.panic = o.panic
                    self._seal(p2, f2)
                    res.append((None, p2))
            live = [(a, b) for a, b in res if a is not None]
            dead = [b for a, b in res if a is None]
            return ("forks", live, dead)

    # ---------- function values, closures, adaptors ----------
    FN_CALL = ("std::ops::Fn::call", "std::ops::FnMut::call_mut", "std::ops::FnOnce::call_once")

    @staticmethod
    def _value_of(frame, a):
        v = a
        n = 0
        while isinstance(v, tuple) and v[0] == "ref" and n < 4:
            v = frame.read_lv(v[2])
            n += 1
        # a function item (or capture-less closure) held in a local that a loop borrows mutably (`mut f: F`, `f(&mut x)`) is
        # widened at the loop head like any other local, but a value of such a type cannot change
        if isinstance(v, tuple) and v[0] == "loopvar" and len(v) > 3 and isinstance(v[3], tuple) and \
                (v[3][0] == "fn" or (v[3][0] == "closure" and not v[3][3])):
            v = v[3]
        return v

    def _fn_callee(self, fnv):
        """a callee record (like the extractor's) for a function item value"""
        text = self.eng.fn_text.get(fnv, fnv[1])
        f = {"def": fnv[1], "def_noargs": fnv[1], "args": list(fnv[2]), "text": text, "krate": None}
        m = re.match(r"^<(.+) as ([^<>]+(?:<.*>)?)>::(\w+)$", text)
        if m:
            f["trait"] = re.sub(r"<.*$", "", m.group(2))
            f["self_ty"] = m.group(1)
        bs = self.eng.by_path.get(fnv[1])
        if bs and len(bs) == 1 and not m:
            f["resolved_local"] = True
            f["resolved"] = fnv[1]
        return f

    def _closure_outs(self, frame, clo, args):
        bs = self.eng.by_path.get(clo[1])
        if not bs or frame.depth >= self.eng.max_depth:
            return None, None
        body = bs[0]
        self_ty = body["locals"][1]["ty"] if len(body["locals"]) > 1 else ""
        env_arg = ("ref", False, ("val", clo)) if self_ty.startswith("&") else clo
        sub = Analysis(self.eng, self.policy)
        return sub.run(body, [env_arg] + list(args), frame.depth + 1, parent=frame), body

    def _apply(self, frame, t, path, bb, fv, args, **kw):
        """call the function value fv (fn item or closure) on argument terms, continuing the caller"""
        if isinstance(fv, tuple) and fv[0] == "closure":
            outs, body = self._closure_outs(frame, fv, args)
            if outs is None:
                return None
            return self._merge_outs(frame, t, path, outs, body["path"], **kw)
        if isinstance(fv, tuple) and fv[0] == "fn" and not kw:
            return self._call(frame, t, path, bb, override=(self._fn_callee(fv), list(args)))
        return None

    def _higher_order(self, frame, t, ev, path, bb):
        f = ev.callee
        if "indirect" in f:
            return None
        d = f.get("def") or ""
        a = ev.args
        if d in self.FN_CALL and len(a) == 2:
            fv = self._value_of(frame, a[0])
            tup = a[1]
            if isinstance(tup, tuple) and tup[0] == "tuple" and isinstance(fv, tuple) and fv[0] in ("fn", "closure"):
                return self._apply(frame, t, path, bb, fv, list(tup[1]))
            return None
        if d == "std::iter::Iterator::for_each" and len(a) == 2:
            return self._for_each(frame, t, ev, path, bb)
        if d in ("std::iter::Iterator::all", "std::iter::Iterator::any", "std::iter::Iterator::find") and len(a) == 2:
            return self._for_each(frame, t, ev, path, bb, short=d.split("::")[-1])
        if getattr(self.policy, "fork_std", False):
            return self._fork_std(frame, t, ev, path, bb)
        return None

    def _synth_event(self, path, key, fdict, args, bb, line):
        e = CallEvent(fdict, key, list(args), bb, line)
        e.idx = next(self.eng.ids)
        e.inlined = "synthetic"
        e.result = ("call", key, tuple(args), e.idx if self.policy.unique_calls else None)
        return e

    def _for_each(self, frame, t, ev, path, bb, short=None):
        """`it.for_each(f)` is `for x in it { f(x) }`: same iteration summaries and exit path as the MIR loop.
        `it.all(f)` is `for x in it { if !f(x) { return false } } true` (any: dually), `it` being taken by &mut."""
        it, fv = ev.args[0], self._value_of(frame, ev.args[1])
        if short:
            it = self._value_of(frame, it) if isinstance(it, tuple) and it[0] == "ref" else it
            if not (isinstance(fv, tuple) and fv[0] == "closure"):
                return None
        if not (isinstance(fv, tuple) and fv[0] in ("closure", "fn")):
            return None
        ity = ev.callee.get("self_ty") or (ev.callee.get("args") or ["?"])[0]
        line = t.get("line")
        k1 = "<%s as std::iter::IntoIterator>::into_iter" % ity
        e1 = self._synth_event(path, k1, {"def": "std::iter::IntoIterator::into_iter", "text": k1, "trait": "std::iter::IntoIterator", "self_ty": ity, "args": [ity]}, [it], bb, line)
        k2 = "<%s as std::iter::Iterator>::next" % ity
        e2 = self._synth_event(path, k2, {"def": "std::iter::Iterator::next", "text": k2, "trait": "std::iter::Iterator", "self_ty": ity, "args": [ity]}, [("ref", True, ("val", e1.result))], bb, line)
        res = e2.result
        item = self.eng.project(("downcast", res, 1, "Some"), 0, "0", None)
        header = ("foreach", e2.idx)
        some = (("discr", res), ("==", 1), line)
        none = (("discr", res), ("==", 0), line)
        if fv[0] == "closure":
            outs, body = self._closure_outs(frame, fv, [("ref", False, ("val", item)) if short == "find" else item])
            if outs is None:
                return None
            split = None
            if short:
                stop = I(0 if short == "all" else 1, "bool")
                stopval = _some(item) if short == "find" else stop

                def split(ret, stop=stop, stopval=stopval):
                    if is_int(ret):
                        return [(None, ("val", stopval))] if bool(ret[1]) == bool(stop[1]) else [(None, "iter")]
                    return [((ret, ("==", bool(stop[1]))), ("val", stopval)), ((ret, ("==", not bool(stop[1]))), "iter")]
            r = self._merge_outs(frame, t, path, outs, body["path"], guard=some, as_iteration=header, pre_calls=(e1, e2), ret_split=split)
            if short:
                dead = r[2]
                stopped = r[1]
            else:
                dead = r[2] + [p2 for _, p2 in r[1]]
                stopped = []
            written = set()
            for o in outs:
                written.update(getattr(o, "foreign_writes", {}).keys())
                written.update(lv for lv, _ in o.stores if lv[0] != "local")
        else:
            # a function item applied to each element: one opaque (or inlined) call per iteration
            f2, p2 = frame.clone(), path.clone()
            p2.guards.append(some)
            p2.calls.extend((e1, e2))
            r = self._call(f2, dict(t, t=t["t"]), p2, bb, override=(self._fn_callee(fv), [item]))
            dead = []
            if r is True:
                p2.end = "continue"
                p2.loop_header = header
                self._seal(p2, f2)
                dead = [p2]
            elif isinstance(r, tuple):
                for fx, px in r[1]:
                    px.end = "continue"
                    px.loop_header = header
                    self._seal(px, fx)
                    dead.append(px)
                dead += r[2]
            else:
                dead = [p2]
            written = set()
        # the exit path: everything the body may have written is unknown afterwards
        fe, pe = frame.clone(), path.clone()
        pe.calls.extend((e1, e2))
        pe.guards.append(none)
        pe.loops.append(header)
        for lv in written:
            try:
                old = fe.read_lv(lv)
                fe.write_lv(lv, ("loopvar", header, lv, old), pe)
            except Exception:
                pass
        self._assign_dest(fe, t, (NONE if short == "find" else I(1 if short == "all" else 0, "bool")) if short else ("unit",), pe)
        return ("forks", [(fe, pe)] + (stopped if fv[0] == "closure" else []), dead)

    OPT_RE = re.compile(r"^std::option::Option::<[^>]*>::(\w+)$")
    RES_RE = re.compile(r"^std::result::Result::<.*>::(\w+)$")
    BOOL_RE = re.compile(r"^(?:core|std)::bool::<impl bool>::(\w+)$")
    CHK_RE = re.compile(r"^(?:core|std)::num::<impl (?:u8|u16|u32|u64|u128|usize)>::checked_sub$")

    def _fork_std(self, frame, t, ev, path, bb):
        """Option / Result / bool combinators on symbolic values, presented as the `match` they abbreviate
        (so `x.unwrap_or(d)` and `match x { Some(v) => v, None => d }` have one normal form)."""
        d = ev.callee.get("def") or ""
        a = ev.args
        proj = self.eng.project
        TRUE, FALSE = I(1, "bool"), I(0, "bool")
        ok_ = lambda x: ("agg", "std::result::Result", 0, "Ok", (x,))
        err_ = lambda x: ("agg", "std::result::Result", 1, "Err", (x,))
        ident = None
        alts = None
        m = self.OPT_RE.match(d)
        if m and a and not _is_opt(a[0]):
            o = self._value_of(frame, a[0])
            if _is_opt(o) or not isinstance(o, tuple):
                return None
            D = ("discr", o)
            some, none = (D, ("==", 1)), (D, ("==", 0))
            pay = proj(("downcast", o, 1, "Some"), 0, "0", None)
            n = m.group(1)
            alts = {
                "unwrap_or": [(some, ("val", pay)), (none, ("val", a[1] if len(a) > 1 else None))],
                "unwrap_or_else": [(some, ("val", pay)), (none, ("clo", a[1] if len(a) > 1 else None, [], ident))],
                "map_or": [(some, ("clo", a[2] if len(a) > 2 else None, [pay], ident)), (none, ("val", a[1] if len(a) > 1 else None))],
                "map_or_else": [(some, ("clo", a[2] if len(a) > 2 else None, [pay], ident)), (none, ("clo", a[1] if len(a) > 1 else None, [], ident))],
                "map": [(some, ("clo", a[1] if len(a) > 1 else None, [pay], _some)), (none, ("val", NONE))],
                "and_then": [(some, ("clo", a[1] if len(a) > 1 else None, [pay], ident)), (none, ("val", NONE))],
                "ok_or": [(some, ("val", ok_(pay))), (none, ("val", err_(a[1]) if len(a) > 1 else None))],
                "ok_or_else": [(some, ("val", ok_(pay))), (none, ("clo", a[1] if len(a) > 1 else None, [], err_))],
                "as_ref": [(some, ("val", _some(("ref", False, ("val", pay))))), (none, ("val", NONE))],
                "is_some_and": [(some, ("clo", a[1] if len(a) > 1 else None, [pay], ident)), (none, ("val", FALSE))],
                "is_none_or": [(some, ("clo", a[1] if len(a) > 1 else None, [pay], ident)), (none, ("val", TRUE))],
                "is_some": [(some, ("val", TRUE)), (none, ("val", FALSE))],
                "is_none": [(some, ("val", FALSE)), (none, ("val", TRUE))],
                "copied": [(some, ("val", _some(("deref", pay)))), (none, ("val", NONE))],
                "cloned": [(some, ("val", _some(("call", "<T as std::clone::Clone>::clone", (pay,), None)))), (none, ("val", NONE))],
            }.get(n)
        if alts is None and d == "std::clone::Clone::clone" and (ev.callee.get("self_ty") or "").startswith("std::option::Option<") and len(a) == 1:
            # cloning an Option is cloning its payload: `x.clone().ok_or(e)` and `match x { Some(v) => Ok(v.clone()), None => Err(e) }`
            o = self._value_of(frame, a[0])
            if isinstance(o, tuple) and not _is_opt(o):
                D = ("discr", o)
                pay = proj(("downcast", o, 1, "Some"), 0, "0", None)
                alts = [((D, ("==", 1)), ("val", _some(("call", "<T as std::clone::Clone>::clone", (pay,), None)))), ((D, ("==", 0)), ("val", NONE))]
        if alts is None and d in ("std::cmp::PartialEq::eq", "std::cmp::PartialEq::ne") and len(a) == 2 and \
                (ev.callee.get("self_ty") or "").startswith("std::option::Option<"):
            # `opt == Some(v)` on a symbolic option: Some(x) -> x == v, None -> false (and the mirror image; `!=` negated)
            x, y = self._value_of(frame, a[0]), self._value_of(frame, a[1])
            if _is_opt(x) and not _is_opt(y):
                x, y = y, x
            if _is_opt(y) and isinstance(x, tuple) and not _is_opt(x):
                inner = re.sub(r"^std::option::Option<(.*)>$", r"\1", ev.callee.get("self_ty") or "")
                D = ("discr", x)
                pay = proj(("downcast", x, 1, "Some"), 0, "0", None)
                ne = d.endswith("::ne")
                if y[3] == "Some":
                    v = y[4][0]
                    same = ("call", "<%s as std::cmp::PartialEq>::%s" % (inner, "ne" if ne else "eq"), (pay, v), None)
                    if inner in INT_TYS or inner in ("bool", "char"):
                        same = frame.binop("Ne" if ne else "Eq", pay, v, inner)
                    alts = [((D, ("==", 1)), ("val", same)), ((D, ("==", 0)), ("val", TRUE if ne else FALSE))]
                else:
                    alts = [((D, ("==", 1)), ("val", TRUE if ne else FALSE)), ((D, ("==", 0)), ("val", FALSE if ne else TRUE))]
        m = self.RES_RE.match(d) if alts is None else None
        if m and a and not (isinstance(a[0], tuple) and a[0][0] == "agg"):
            r = self._value_of(frame, a[0])
            if not isinstance(r, tuple) or r[0] == "agg":
                return None
            D = ("discr", r)
            isok, iserr = (D, ("==", 0)), (D, ("==", 1))
            okp = proj(("downcast", r, 0, "Ok"), 0, "0", None)
            erp = proj(("downcast", r, 1, "Err"), 0, "0", None)
            n = m.group(1)
            alts = {
                "map": [(isok, ("clo", a[1] if len(a) > 1 else None, [okp], ok_)), (iserr, ("val", err_(erp)))],
                "map_err": [(isok, ("val", ok_(okp))), (iserr, ("clo", a[1] if len(a) > 1 else None, [erp], err_))],
                "and_then": [(isok, ("clo", a[1] if len(a) > 1 else None, [okp], ident)), (iserr, ("val", err_(erp)))],
                "ok": [(isok, ("val", _some(okp))), (iserr, ("val", NONE))],
                "is_ok": [(isok, ("val", TRUE)), (iserr, ("val", FALSE))],
                "is_err": [(isok, ("val", FALSE)), (iserr, ("val", TRUE))],
                "copied": [(isok, ("val", ok_(("deref", okp)))), (iserr, ("val", err_(erp)))],
                "cloned": [(isok, ("val", ok_(("deref", okp)))), (iserr, ("val", err_(erp)))],
                "unwrap_or": [(isok, ("val", okp)), (iserr, ("val", a[1] if len(a) > 1 else None))],
            }.get(n)
        m = self.BOOL_RE.match(d) if alts is None else None
        if m and a and not is_int(a[0]):
            cnd = a[0]
            yes, no = (cnd, ("==", True)), (cnd, ("==", False))
            n = m.group(1)
            alts = {
                "then_some": [(yes, ("val", _some(a[1]) if len(a) > 1 else None)), (no, ("val", NONE))],
                "then": [(yes, ("clo", a[1] if len(a) > 1 else None, [], _some)), (no, ("val", NONE))],
            }.get(n)
        m = self.CHK_RE.match(d) if alts is None else None
        if m and len(a) == 2 and not (is_int(a[0]) and is_int(a[1])):
            # a.checked_sub(b) on unsigned integers: Some(a - b) exactly when a >= b
            cnd = ("bin", "Ge", a[0], a[1])
            alts = [((cnd, ("==", True)), ("val", _some(("bin", "Sub", a[0], a[1])))), ((cnd, ("==", False)), ("val", NONE))]
        if alts is None and re.match(r"^std::collections::hash_map::Entry::<.*>::(and_modify|or_insert_with|or_insert|or_default)$", d) and a:
            return self._fork_entry(frame, t, ev, path, bb, d.split("::")[-1])
        if not alts:
            return None
        line = t.get("line")
        live, dead = [], []
        for g, prod in alts:
            if self._contradicts(path, g):
                continue
            g3 = g + (line,)
            if prod[0] == "val":
                if prod[1] is None:
                    return None
                f2, p2 = frame.clone(), path.clone()
                p2.guards.append(g3)
                self._assign_dest(f2, t, prod[1], p2)
                live.append((f2, p2))
                continue
            fv = self._value_of(frame, prod[1]) if prod[1] is not None else None
            if not (isinstance(fv, tuple) and fv[0] in ("closure", "fn")):
                return None
            if fv[0] == "closure":
                r = self._apply(frame, t, path, bb, fv, prod[2], wrap=prod[3], guard=g3)
                if r is None:
                    return None
                live += r[1]
                dead += r[2]
            else:
                f2, p2 = frame.clone(), path.clone()
                p2.guards.append(g3)
                r = self._call(f2, t, p2, bb, override=(self._fn_callee(fv), list(prod[2])))
                outs = [(f2, p2)] if r is True else (r[1] if isinstance(r, tuple) else [])
                if r is None:
                    dead.append(p2)
                if isinstance(r, tuple):
                    dead += r[2]
                for fx, px in outs:
                    if prod[3] is not None:
                        lv = fx.lv_of(t["dest"]) if t["dest"]["proj"] else fx.loc(t["dest"]["l"])
                        fx.write_lv(lv, prod[3](fx.read_lv(lv)), px)
                    live.append((fx, px))
        return ("forks", live, dead)

    def _fork_entry(self, frame, t, ev, path, bb, m):
        """HashMap entry combinators as the Occupied / Vacant match they abbreviate; the writes are presented as the
        OccupiedEntry::insert / VacantEntry::insert calls of the explicit form."""
        a = ev.args
        E = a[0]
        if not (isinstance(E, tuple) and E[0] == "call"):
            return None
        line = t.get("line")
        D = ("discr", E)
        occ, vac = (D, ("==", 0)), (D, ("==", 1))
        kv = re.sub(r"^std::collections::hash_map::Entry::<'?\w*,? ?", "", ev.callee["def"].rsplit(">::", 1)[0])
        slot = ("entryval", E)
        live, dead = [], []

        def single(fv, args):
            outs, body = self._closure_outs(frame, fv, args)
            if outs is None:
                return None
            rets = [o for o in outs if o.end == "return"]
            if len(rets) != 1 or len(outs) != 1 or rets[0].guards:
                return None
            return rets[0]
        for g in (occ, vac):
            if self._contradicts(path, g):
                continue
            f2, p2 = frame.clone(), path.clone()
            p2.guards.append(g + (line,))
            is_occ = g is occ
            if m == "and_modify":
                if is_occ:
                    fv = self._value_of(frame, a[1])
                    if not (isinstance(fv, tuple) and fv[0] == "closure"):
                        return None
                    o = single(fv, [("ref", True, slot)])
                    if o is None:
                        return None
                    written = [v for lv, v in o.stores if lv == slot] + [v for lv, v in getattr(o, "foreign_writes", {}).items() if lv == slot]
                    if len(written) != 1 or [c for c in o.calls if not c.inlined]:
                        return None
                    p2.calls.extend(o.calls)
                    pay = self.eng.project(("downcast", E, 0, "Occupied"), 0, "0", None)
                    k = "std::collections::hash_map::OccupiedEntry::<%s>::insert" % kv
                    p2.calls.append(self._synth_event(p2, k, {"def": k, "text": k, "args": []}, [("ref", True, ("val", pay)), written[0]], bb, line))
                self._assign_dest(f2, t, E, p2)
            else:
                if is_occ:
                    self._assign_dest(f2, t, ("ref", True, slot), p2)
                else:
                    if m == "or_insert":
                        v = a[1]
                    elif m == "or_default":
                        return None
                    else:
                        fv = self._value_of(frame, a[1])
                        if not (isinstance(fv, tuple) and fv[0] == "closure"):
                            return None
                        o = single(fv, [])
                        if o is None or o.stores:
                            return None
                        p2.calls.extend(o.calls)
                        v = o.ret
                    pay = self.eng.project(("downcast", E, 1, "Vacant"), 0, "0", None)
                    k = "std::collections::hash_map::VacantEntry::<%s>::insert" % kv
                    p2.calls.append(self._synth_event(p2, k, {"def": k, "text": k, "args": []}, [pay, v], bb, line))
                    self._assign_dest(f2, t, ("ref", True, slot), p2)
            live.append((f2, p2))
        return ("forks", live, dead)

    def _opaque(self, frame, t, ev, path, key, args):
        # opaque call
        ev.idx = next(self.eng.ids)
        path.calls.append(ev)
        r = ("call", key, tuple(args), ev.idx if self.policy.unique_calls else None)
        ev.result = r
        for a in args:
            if isinstance(a, tuple) and a[0] == "ref" and a[1]:
                old = frame.read_lv(a[2])
                frame.write_lv(a[2], ("post", ev.idx, old), path) if a[2][0] in ("local", "lfield", "ldowncast") else frame.heap.__setitem__(a[2], ("post", ev.idx, old))
        self._assign_dest(frame, t, r, path)
        return True

    def _assign_dest(self, frame, t, r, path):
        d = t["dest"]
        frame.write_lv(frame.lv_of(d) if d["proj"] else frame.loc(d["l"]), r, path)

    def _local_body(self, f):
        if "indirect" in f:
            return None
        if f.get("resolved_local"):
            p = f["resolved"]
            bs = self.eng.by_path.get(p)
            if bs:
                if len(bs) == 1:
                    return bs[0]
                # disambiguate by impl self type
                for b in bs:
                    if b.get("impl") and b["impl"].get("self_ty") == f.get("resolved_impl_self"):
                        return b
                return bs[0]
        if f.get("def") == "std::convert::Into::into" and len(f.get("args") or []) == 2:
            # the blanket `impl<T, U: From<T>> Into<U> for T` is `U::from(self)`: a crate-local, non-generic From impl is its body
            bs = self.eng.by_path.get("<%s as std::convert::From<%s>>::from" % (f["args"][1], f["args"][0]))
            if bs and len(bs) == 1 and not bs[0].get("generics"):
                return bs[0]
        return None


class Policy:
    """What to inline and which std calls have model rows."""
    unique_calls = False

    def inline(self, callee, body, depth):
        return False

    def model(self, an, frame, ev, path):
        return std_model(an, frame, ev, path)


class InlineConst(Policy):
    """initialisers of consts: const fns of the crate are evaluated"""
    def inline(self, callee, body, depth):
        return True


def _tygens_of(b):
    return [g for g in (b.get("generics") or []) if not g.startswith("'") and not g.startswith("<")]


def _unref(frame, a):
    """value behind a reference term"""
    if isinstance(a, tuple) and a[0] == "ref":
        return frame.read_lv(a[2])
    return ("deref", a)


INT_OPS = {"Add": "Add", "Sub": "Sub", "Mul": "Mul", "Div": "Div", "Rem": "Rem", "Shl": "Shl", "Shr": "Shr",
           "BitAnd": "BitAnd", "BitOr": "BitOr", "BitXor": "BitXor"}
INT_TYS = set(MASKS) - {"bool", "char"}
UNSIGNED = {"usize", "u8", "u16", "u32", "u64", "u128"}


def std_model(an, frame, ev, path):
    """Model rows for std items (DESIGN.md appendix A, std rows). Return a term or None."""
    f = ev.callee
    if "indirect" in f:
        return None
    d = f["def"]
    a = ev.args
    tr = f.get("trait")
    st = f.get("self_ty")
    # integer operators through references / by value
    if tr and tr.startswith("std::ops::") and d.split("::")[-1] in ("add", "sub", "mul", "div", "rem", "shl", "shr", "bitand", "bitor", "bitxor"):
        base = st.lstrip("&") if st else ""
        if base in INT_TYS:
            op = d.split("::")[-1]
            op = {"add": "Add", "sub": "Sub", "mul": "Mul", "div": "Div", "rem": "Rem", "shl": "Shl", "shr": "Shr",
                  "bitand": "BitAnd", "bitor": "BitOr", "bitxor": "BitXor"}[op]
            x = _unref(frame, a[0]) if st.startswith("&") else a[0]
            rhs_ty = f["args"][1] if len(f["args"]) > 1 else ""
            y = _unref(frame, a[1]) if rhs_ty.startswith("&") else a[1]
            return frame.binop(op, x, y, base)
    if tr in ("std::cmp::PartialEq", "std::cmp::PartialOrd") and st and st.lstrip("&") in (INT_TYS | {"bool", "char"}):
        m = d.split("::")[-1]
        op = {"eq": "Eq", "ne": "Ne", "lt": "Lt", "le": "Le", "gt": "Gt", "ge": "Ge"}.get(m)
        if op:
            x, y = _unref(frame, a[0]), _unref(frame, a[1])
            n = st.count("&")
            for _ in range(n):
                x = _unref(frame, x) if isinstance(x, tuple) and x[0] == "ref" else x
                y = _unref(frame, y) if isinstance(y, tuple) and y[0] == "ref" else y
            return frame.binop(op, x, y, st.lstrip("&"))
    if d in ("std::convert::Into::into", "std::convert::From::from"):
        src = f["args"][0] if d.endswith("into") else f["args"][1]
        dst = f["args"][1] if d.endswith("into") else f["args"][0]
        if src == dst:
            return a[0]
        if src == "u8" and dst == "char":
            return frame.cast("IntToInt", a[0], "u8", "char")
        if src in INT_TYS and dst in INT_TYS and MASKS[src] <= MASKS[dst] and (src in SIGNED) == (dst in SIGNED):
            return frame.cast("IntToInt", a[0], src, dst)
    if d == "std::option::Option::<T>::unwrap" or d == "std::option::Option::<T>::expect":
        if isinstance(a[0], tuple) and a[0][0] == "agg" and a[0][1] == "std::option::Option":
            if a[0][3] == "Some":
                return a[0][4][0]
    r = _option_rows(an, frame, ev, path, d, a)
    if r is not None:
        return r
    if d in ("std::mem::size_of", "core::mem::size_of") and not a and len(f.get("args") or []) == 1:
        sz = {"u8": 1, "i8": 1, "bool": 1, "u16": 2, "i16": 2, "u32": 4, "i32": 4, "char": 4, "u64": 8, "i64": 8, "usize": 8, "isize": 8, "u128": 16, "i128": 16}.get(f["args"][0])
        if sz is not None:
            return I(sz, "usize")     # the extractor runs for the 64-bit host the checks are registered for
    if d in ("std::array::from_fn", "core::array::from_fn") and len(f.get("args") or []) >= 2 and str(f["args"][1]).isdigit() and len(a) == 1:
        # [f(0), f(1), .., f(N-1)] for a literal N: the array a table initialiser writes element by element
        n = int(f["args"][1])
        clo = a[0]
        if n <= 256 and isinstance(clo, tuple) and clo[0] == "closure":
            els = []
            for i in range(n):
                r = _call_closure(an, frame, clo, [I(i, "usize")], path)
                if r is None or r[0] == "PANIC":
                    els = None
                    break
                els.append(r)
            if els is not None:
                return ("array", tuple(els))
    m = re.match(r"^(?:core|std)::slice::<impl \[\w+\]>::contains$", d)
    if m and len(a) == 2:
        # membership in a slice of known integers (`b"ACGTN".contains(&c)`)
        hay = a[0]
        while isinstance(hay, tuple) and hay[0] == "cast" and hay[1] == "PointerCoercion":
            hay = hay[2]
        hay = _unref(frame, hay) if isinstance(hay, tuple) and hay[0] == "ref" else hay
        x = _unref(frame, a[1]) if isinstance(a[1], tuple) and a[1][0] == "ref" else None
        vals = None
        if isinstance(hay, tuple) and hay[0] == "mem" and re.match(r"^&?('\w+ )?\[u8(; \d+)?\]$", hay[2] or ""):
            vals = list(hay[1])
        elif isinstance(hay, tuple) and hay[0] == "array" and all(is_int(v) for v in hay[1]):
            vals = [v[1] for v in hay[1]]
        if vals is not None and is_int(x):
            return I(1 if x[1] in vals else 0, "bool")
    # the `?` operator on known values: Try::branch / FromResidual::from_residual of Option and Result
    if d == "std::ops::Try::branch" and st and a:
        v = a[0]
        CF = lambda i, n, x: ("agg", "std::ops::ControlFlow", i, n, (x,))
        if st.startswith("std::option::Option<") and _is_opt(v):
            return CF(0, "Continue", v[4][0]) if v[3] == "Some" else CF(1, "Break", NONE)
        if st.startswith("std::result::Result<") and isinstance(v, tuple) and v[0] == "agg" and v[1] == "std::result::Result":
            return CF(0, "Continue", v[4][0]) if v[3] == "Ok" else CF(1, "Break", v)
    if d == "std::ops::FromResidual::from_residual" and st and a:
        if st.startswith("std::option::Option<"):
            return NONE          # the residual type Option<Infallible> has one value
        v = a[0]
        if st.startswith("std::result::Result<") and isinstance(v, tuple) and v[0] == "agg" and v[1] == "std::result::Result" and v[3] == "Err":
            rt = f["args"][0] if f.get("args") else ""
            e_self = _last_targ(st)
            e_res = _last_targ(rt)
            if e_self is not None and e_self == e_res:       # `From<E> for E` is the identity
                return v
    if d == "std::ptr::from_ref":
        return a[0]
    if st and st.startswith("std::marker::PhantomData<"):
        m = d.split("::")[-1]
        if tr == "std::cmp::PartialEq" and m in ("eq", "ne"):
            return I(1 if m == "eq" else 0, "bool")
        if tr == "std::cmp::Ord" and m == "cmp":
            return ("agg", "std::cmp::Ordering", 1, "Equal", ())
        if tr == "std::cmp::PartialOrd" and m == "partial_cmp":
            return ("agg", "std::option::Option", 1, "Some", (("agg", "std::cmp::Ordering", 1, "Equal", ()),))
    if re.match(r"^(core|std)::num::<impl (usize|u8|u32|u64)>::(saturating_sub|saturating_add|wrapping_sub|wrapping_add)$", d) and is_int(a[1]) and a[1][1] == 0:
        return a[0]
    m = re.match(r"^(?:core|std)::num::<impl u8>::(to_ascii_uppercase|to_ascii_lowercase|is_ascii\w*|eq_ignore_ascii_case)$", d)
    if m and a:
        xs = [(_unref(frame, x) if isinstance(x, tuple) and x[0] == "ref" else x) for x in a]
        if all(is_int(x) for x in xs):
            v = xs[0][1] & 0xFF
            fn = m.group(1)
            ch = chr(v)
            asc = v < 128
            if fn == "to_ascii_uppercase":
                return I(v - 32 if 97 <= v <= 122 else v, "u8")
            if fn == "to_ascii_lowercase":
                return I(v + 32 if 65 <= v <= 90 else v, "u8")
            if fn == "eq_ignore_ascii_case" and len(xs) == 2:
                lo = lambda t: t + 32 if 65 <= t <= 90 else t
                return I(1 if lo(v) == lo(xs[1][1] & 0xFF) else 0, "bool")
            preds = {"is_ascii": asc, "is_ascii_alphabetic": asc and ch.isalpha(), "is_ascii_uppercase": 65 <= v <= 90,
                     "is_ascii_lowercase": 97 <= v <= 122, "is_ascii_digit": 48 <= v <= 57, "is_ascii_alphanumeric": asc and ch.isalnum(),
                     "is_ascii_whitespace": v in (32, 9, 10, 12, 13), "is_ascii_punctuation": asc and (33 <= v <= 47 or 58 <= v <= 64 or 91 <= v <= 96 or 123 <= v <= 126),
                     "is_ascii_graphic": 33 <= v <= 126, "is_ascii_control": v < 32 or v == 127, "is_ascii_hexdigit": asc and ch in "0123456789abcdefABCDEF"}
            if fn in preds:
                return I(1 if preds[fn] else 0, "bool")
    m = re.match(r"^(?:core|std)::num::<impl (u8|u16|u32|u64|u128|usize)>::(checked_sub)$", d)
    if m and len(a) == 2 and all(is_int(x) for x in a):
        x, y = a[0][1], a[1][1]
        return _some(I(x - y, m.group(1))) if x >= y else NONE
    m = re.match(r"^(?:core|std)::num::<impl (u8|u16|u32|u64|u128|usize)>::(\w+)$", d)
    if m and a and all(is_int(x) for x in a):
        # integer methods on known values (constant folding of the codec tables must not depend on how a bit trick is spelled)
        ty, fn = m.group(1), m.group(2)
        w = MASKS[ty]
        M = (1 << w) - 1
        x = a[0][1] & M
        y = a[1][1] if len(a) > 1 else None
        r = None
        if fn == "reverse_bits":
            r = int(format(x, "0%db" % w)[::-1], 2)
        elif fn == "swap_bytes":
            r = int.from_bytes(x.to_bytes(w // 8, "little"), "big")
        elif fn == "count_ones":
            return I(bin(x).count("1"), "u32")
        elif fn == "count_zeros":
            return I(w - bin(x).count("1"), "u32")
        elif fn == "leading_zeros":
            return I(w - x.bit_length(), "u32")
        elif fn == "trailing_zeros":
            return I(w if x == 0 else (x & -x).bit_length() - 1, "u32")
        elif fn == "rotate_left" and y is not None:
            k = y % w
            r = ((x << k) | (x >> (w - k))) & M if k else x
        elif fn == "rotate_right" and y is not None:
            k = y % w
            r = ((x >> k) | (x << (w - k))) & M if k else x
        elif fn == "wrapping_add" and y is not None:
            r = (x + y) & M
        elif fn == "wrapping_sub" and y is not None:
            r = (x - y) & M
        elif fn == "wrapping_mul" and y is not None:
            r = (x * y) & M
        elif fn == "wrapping_shl" and y is not None:
            r = (x << (y % w)) & M
        elif fn == "wrapping_shr" and y is not None:
            r = x >> (y % w)
        elif fn == "saturating_sub" and y is not None:
            r = max(0, x - y)
        elif fn == "saturating_add" and y is not None:
            r = min(M, x + y)
        elif fn == "min" and y is not None:
            r = min(x, y)
        elif fn == "max" and y is not None:
            r = max(x, y)
        elif fn == "abs_diff" and y is not None:
            r = abs(x - y)
        elif fn == "is_power_of_two":
            return I(1 if x and not (x & (x - 1)) else 0, "bool")
        elif fn == "pow" and y is not None and (x ** y) <= M:
            r = x ** y
        if r is not None:
            return I(r, ty)
    if tr == "std::cmp::Ord" and d.split("::")[-1] in ("min", "max") and len(a) == 2 and is_int(a[0]) and is_int(a[1]):
        return a[0] if (a[0][1] <= a[1][1]) == (d.endswith("min")) else a[1]
    if d in ("std::ops::RangeInclusive::<Idx>::start", "std::ops::RangeInclusive::<Idx>::end"):
        which = d.split("::")[-1]
        return ("ref", False, ("field", _unref(frame, a[0]), 0 if which == "start" else 1, which, "usize"))
    if d == "std::clone::Clone::clone" and st and (st in INT_TYS or st in ("bool", "char")):
        return _unref(frame, a[0])
    if d == "std::ops::Deref::deref" and st and st.startswith("&"):
        return _unref(frame, a[0])
    return None


def _rename_generics(o, gmap):
    """rewrite type-parameter names inside every path/type string of an inlined callee's outcome"""
    rx = re.compile(r"(?<![\w:])(" + "|".join(re.escape(g) for g in sorted(gmap, key=len, reverse=True)) + r")(?![\w])")
    memo = {}

    def fs(x):
        if isinstance(x, str):
            return rx.sub(lambda m: gmap[m.group(1)], x) if rx.search(x) else x
        if isinstance(x, tuple):
            k = id(x)
            if k in memo:
                return memo[k][1]
            if x and x[0] in ("int", "local", "str"):
                return x
            r = tuple(fs(y) for y in x)
            memo[k] = (x, r)
            return r
        if isinstance(x, list):
            return [fs(y) for y in x]
        return x
    o.guards = [fs(g) for g in o.guards]
    o.ret = fs(o.ret)
    o.stores = [(fs(lv), fs(v)) for lv, v in o.stores]
    for c in o.calls:
        if getattr(c, "_renamed", None) is gmap:
            continue
        c.key = fs(c.key)
        c.args = fs(c.args)
        c.result = fs(c.result)
        try:
            c._renamed = gmap
        except AttributeError:
            pass
    if getattr(o, "env", None) is not None:
        o.env = {k: fs(v) for k, v in o.env.items()}
    if getattr(o, "foreign_writes", None):
        o.foreign_writes = {fs(k): fs(v) for k, v in o.foreign_writes.items()}
    return o


def _some(x):
    return ("agg", "std::option::Option", 1, "Some", (x,))


NONE = ("agg", "std::option::Option", 0, "None", ())


def _is_opt(t):
    return isinstance(t, tuple) and t[0] == "agg" and t[1] == "std::option::Option"


def _call_closure(an, frame, clo, args, path):
    """evaluate a closure value on argument terms; returns the single return term, ('PANIC', info) or None"""
    if not (isinstance(clo, tuple) and clo[0] == "closure"):
        return None
    bs = an.eng.by_path.get(clo[1])
    if not bs or frame.depth >= an.eng.max_depth:
        return None
    body = bs[0]
    self_ty = body["locals"][1]["ty"] if len(body["locals"]) > 1 else ""
    env_arg = ("ref", False, ("val", clo)) if self_ty.startswith("&") else clo
    sub = Analysis(an.eng, an.policy)
    try:
        outs = sub.run(body, [env_arg] + list(args), frame.depth + 1, parent=frame)
    except Budget:
        return None
    if outs and all(o.end == "panic" for o in outs):
        return ("PANIC", outs[0].panic)
    rets = [o for o in outs if o.end == "return"]
    if len(rets) == 1 and len(outs) == 1 and not rets[0].guards:
        path.calls.extend(rets[0].calls)
        return rets[0].ret
    return None


def _last_targ(ty):
    """last generic argument of a type text `P<.., X>` (None if there is none)"""
    if not ty or not ty.endswith(">") or "<" not in ty:
        return None
    inner = ty[ty.index("<") + 1:-1]
    depth, cur, parts = 0, "", []
    for ch in inner:
        if ch in "<([":
            depth += 1
        elif ch in ">)]":
            depth -= 1
        if ch == "," and depth == 0:
            parts.append(cur.strip())
            cur = ""
        else:
            cur += ch
    parts.append(cur.strip())
    return parts[-1]


def _option_rows(an, frame, ev, path, d, a):
    """std rows that fold on *known* Option / bool values (used by constant propagation of the codec layer)"""
    m = d.split("::")[-1]
    if d.startswith("core::bool::<impl bool>::") or d.startswith("std::bool::<impl bool>::"):
        if is_int(a[0]):
            if m == "then_some":
                return _some(a[1]) if a[0][1] else NONE
            if m == "then":
                if not a[0][1]:
                    return NONE
                r = _call_closure(an, frame, a[1], [], path)
                return _some(r) if r is not None and r[0] != "PANIC" else None
        return None
    if d.startswith("std::result::Result::<") and a:
        r0 = a[0]
        if isinstance(r0, tuple) and r0[0] == "ref":
            r0 = frame.read_lv(r0[2])
        if isinstance(r0, tuple) and r0[0] == "agg" and r0[1] == "std::result::Result":
            isok = r0[3] == "Ok"
            x = r0[4][0]
            if m in ("copied", "cloned"):
                return ("agg", "std::result::Result", 0, "Ok", (_unref(frame, x) if isinstance(x, tuple) and x[0] == "ref" else ("deref", x),)) if isok else r0
            if m == "ok":
                return _some(x) if isok else NONE
            if m == "is_ok":
                return I(1 if isok else 0, "bool")
            if m == "is_err":
                return I(0 if isok else 1, "bool")
            if m == "unwrap_or":
                return x if isok else a[1]
            if m == "map" and not isok:
                return r0
            if m == "map_err" and isok:
                return r0
            if m == "map" and isok:
                r = _call_closure(an, frame, a[1], [x], path)
                return ("agg", "std::result::Result", 0, "Ok", (r,)) if r is not None and r[0] != "PANIC" else None
            if m == "map_err" and not isok:
                r = _call_closure(an, frame, a[1], [x], path)
                return ("agg", "std::result::Result", 1, "Err", (r,)) if r is not None and r[0] != "PANIC" else None
        return None
    if not re.match(r"^std::option::Option::<[^>]*>::\w+$", d) or not a:
        return None
    o0 = a[0]
    if isinstance(o0, tuple) and o0[0] == "ref" and m in ("is_some", "is_none", "as_ref"):
        o0 = frame.read_lv(o0[2])
    if not _is_opt(o0):
        return None
    o = o0
    if m == "as_ref":
        return _some(("ref", False, ("val", o[4][0]))) if o[3] == "Some" else NONE
    some = o[3] == "Some"
    x = o[4][0] if some else None
    if m == "is_some":
        return I(1 if some else 0, "bool")
    if m == "is_none":
        return I(0 if some else 1, "bool")
    if m == "ok_or":
        return ("agg", "std::result::Result", 0, "Ok", (x,)) if some else ("agg", "std::result::Result", 1, "Err", (a[1],))
    if m == "unwrap_or":
        return x if some else a[1]
    if m in ("copied", "cloned") and some:
        v = _unref(frame, x) if isinstance(x, tuple) and x[0] == "ref" else x
        if m == "cloned" and not is_int(v):
            v = ("call", "<T as std::clone::Clone>::clone", (x,), None)
        return _some(v)
    if m in ("copied", "cloned") and not some:
        return NONE
    if m == "map":
        if not some:
            return NONE
        r = _call_closure(an, frame, a[1], [x], path)
        return _some(r) if r is not None and r[0] != "PANIC" else None
    if m == "map_or":
        if not some:
            return a[1]
        return _call_closure(an, frame, a[2], [x], path)
    if m == "and_then":
        if not some:
            return NONE
        return _call_closure(an, frame, a[1], [x], path)
    if m == "ok_or_else":
        if some:
            return ("agg", "std::result::Result", 0, "Ok", (x,))
        r = _call_closure(an, frame, a[1], [], path)
        return ("agg", "std::result::Result", 1, "Err", (r,)) if r is not None and r[0] != "PANIC" else None
    if m == "unwrap_or_else":
        if some:
            return x
        r = _call_closure(an, frame, a[1], [], path)
        if r is not None and r[0] == "PANIC":
            return ("DIVERGE", r[1])
        return r
    return None


def analyse(eng, body, args=(), policy=None):
    an = Analysis(eng, policy)
    outs = an.run(body, args)
    # dead inlined frames: filter placeholder
    return outs
