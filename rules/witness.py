"""Generated witness crates: compiled under the fact extractor (never executed).

A witness crate path-depends on /repo/bio-seq as an external user would.  Its
evaluated statics and derived-impl MIR are compared with the generator's own
record.  compile_fail doctests (with `no_run` twins) are compiled by rustdoc.
"""
import fcntl
import glob
import hashlib
import json
import os
import re
import shutil
import subprocess
import uuid

import facts

WDIR = os.path.join(facts.CACHE, "witness")


def _write_crate(name, files, features, extra_deps=""):
    # one directory per process: concurrent checks (e.g. the self-test on scratch copies) must not clobber each other
    d = os.path.join(WDIR, "%s-%d" % (name, os.getpid()))
    if os.path.isdir(d):
        shutil.rmtree(d)
    os.makedirs(os.path.join(d, "src"))
    feat = ", features = [%s]" % ", ".join('"%s"' % f for f in features) if features else ""
    with open(os.path.join(d, "Cargo.toml"), "w") as fh:
        fh.write('[package]\nname = "%s"\nversion = "0.0.0"\nedition = "2021"\n\n[dependencies]\nbio-seq = { path = "%s/bio-seq"%s }\n%s\n[workspace]\n' % (
            name, facts.REPO, feat, extra_deps))
    for rel, content in files.items():
        p = os.path.join(d, rel)
        os.makedirs(os.path.dirname(p), exist_ok=True)
        with open(p, "w") as fh:
            fh.write(content)
    lock = os.path.join(facts.REPO, "Cargo.lock")
    if os.path.exists(lock):
        shutil.copy(lock, os.path.join(d, "Cargo.lock"))
    os.makedirs(os.path.join(d, ".cargo"), exist_ok=True)
    with open(os.path.join(d, ".cargo", "config.toml"), "w") as fh:
        fh.write("[net]\noffline = true\n")
    return d


def build(name, files, features=(), release=False, debug_assertions=True):
    """Compile the witness crate under the driver. Returns (ok, Crate|None, diagnostics[list of dict])"""
    facts.ensure_driver()
    os.makedirs(WDIR, exist_ok=True)
    # one witness build at a time per target directory: concurrent checks share it, and the fingerprint reset below must not
    # hit another process's build in flight
    lock = open(os.path.join(facts.CACHE, ".lock-witness" + ("-rel" if release else "")), "w")
    fcntl.flock(lock, fcntl.LOCK_EX)
    try:
        return _build_locked(name, files, features, release, debug_assertions)
    finally:
        fcntl.flock(lock, fcntl.LOCK_UN)
        lock.close()


def _build_locked(name, files, features, release, debug_assertions):
    d = _write_crate(name, files, features)
    out = os.path.join(WDIR, "%s-facts-%d" % (name, os.getpid()))
    if os.path.isdir(out):
        shutil.rmtree(out)
    os.makedirs(out)
    nonce = uuid.uuid4().hex
    target = os.path.join(facts.CACHE, "target-witness" + ("-rel" if release else ""))
    args = ["--message-format=json"] + (["--release"] if release else [])
    # make sure the wrapper runs for the witness crate and for the repo members it depends on
    fpdir = os.path.join(target, "release" if release else "debug", ".fingerprint")
    if os.path.isdir(fpdir):
        for x in os.listdir(fpdir):
            if x.startswith(name.replace("-", "_") + "-") or x.startswith(name + "-"):
                shutil.rmtree(os.path.join(fpdir, x), ignore_errors=True)
    r = facts._run_driver(d, args, target, out, nonce, debug_assertions, crates=name.replace("-", "_"), members=(name, name.replace("-", "_")))
    diags = []
    for line in r.stdout.splitlines():
        if not line.startswith("{"):
            continue
        try:
            m = json.loads(line)
        except ValueError:
            continue
        if m.get("reason") == "compiler-message" and m["message"].get("level") == "error":
            msg = m["message"]
            spans = [(s["file_name"], s["line_start"]) for s in msg.get("spans", []) if s.get("is_primary")]
            # macro expansions: walk to the outermost call site inside the witness crate
            for s in msg.get("spans", []):
                e = s.get("expansion")
                while e:
                    sp = e["span"]
                    spans.append((sp["file_name"], sp["line_start"]))
                    e = sp.get("expansion")
            diags.append({"message": msg["message"], "spans": spans, "rendered": (msg.get("rendered") or "")[:600]})
    crate = None
    if r.returncode == 0:
        fs = glob.glob(os.path.join(out, name.replace("-", "_") + ".*.json"))
        if fs:
            with open(fs[0]) as fh:
                data = json.load(fh)
            if data.get("nonce") == nonce:
                crate = facts.Crate(data)
    shutil.rmtree(d, ignore_errors=True)
    shutil.rmtree(out, ignore_errors=True)
    _gc(target)
    return r.returncode == 0 and crate is not None, crate, diags, r.stderr[-3000:]


def _gc(target):
    """witness crates live at per-process paths, so cargo keeps one set of artifacts per run: drop those older than an hour"""
    import time
    now = time.time()
    for prof in ("debug", "release"):
        for sub in ("deps", ".fingerprint", "incremental"):
            dd = os.path.join(target, prof, sub)
            if not os.path.isdir(dd):
                continue
            for x in os.listdir(dd):
                if "bsq_witness" in x:
                    pth = os.path.join(dd, x)
                    try:
                        if now - os.path.getmtime(pth) > 3600:
                            shutil.rmtree(pth) if os.path.isdir(pth) else os.remove(pth)
                    except OSError:
                        pass
            # the repository crates are path dependencies: every scratch copy of the repository (bin/selftest, bin/trypatch) leaves
            # its own build of them behind.  Keep the most recent few, drop the rest once they are an hour old.
            mine = []
            for x in os.listdir(dd):
                if re.match(r"^(lib)?bio[_-]seq", x):
                    pth = os.path.join(dd, x)
                    try:
                        mine.append((os.path.getmtime(pth), pth))
                    except OSError:
                        pass
            mine.sort(reverse=True)
            for mt, pth in mine[24:]:
                if now - mt > 3600:
                    try:
                        shutil.rmtree(pth) if os.path.isdir(pth) else os.remove(pth)
                    except OSError:
                        pass
    if os.path.isdir(WDIR):
        for x in os.listdir(WDIR):
            pth = os.path.join(WDIR, x)
            try:
                if now - os.path.getmtime(pth) > 3600:
                    shutil.rmtree(pth, ignore_errors=True)
            except OSError:
                pass


DOCTEST_RE = re.compile(r"^test (\S+) - (\S+) \(line (\d+)\)( - compile fail| - compile)? \.\.\. (ok|FAILED)", re.M)


def doctests(name, lib_src, features=()):
    """Run rustdoc's compile_fail / no_run doctests of a harness crate. Returns {item name: 'ok'|'FAILED'}, raw output"""
    os.makedirs(WDIR, exist_ok=True)
    lock = open(os.path.join(facts.CACHE, ".lock-doctest"), "w")
    fcntl.flock(lock, fcntl.LOCK_EX)
    try:
        return _doctests_locked(name, lib_src, features)
    finally:
        fcntl.flock(lock, fcntl.LOCK_UN)
        lock.close()


def _doctests_locked(name, lib_src, features):
    d = _write_crate(name, {"src/lib.rs": lib_src}, features)
    env = dict(os.environ)
    env["CARGO_TARGET_DIR"] = os.path.join(facts.CACHE, "target-doctest")
    env["CARGO_NET_OFFLINE"] = "true"
    env["CARGO_INCREMENTAL"] = "0"
    env.pop("RUSTC_WORKSPACE_WRAPPER", None)
    r = subprocess.run(["cargo", "+nightly", "test", "--doc", "--offline", "--", "--test-threads", "16"], cwd=d, env=env,
                       stdout=subprocess.PIPE, stderr=subprocess.PIPE, text=True)
    _gc(env["CARGO_TARGET_DIR"])
    res = {}
    for m in DOCTEST_RE.finditer(r.stdout):
        res[m.group(2)] = m.group(5)
    shutil.rmtree(d, ignore_errors=True)
    return res, r.stdout[-4000:] + r.stderr[-2000:], r.returncode
