"""Symbol layer: finite tables of every codec, extracted from MIR.

Every `Codec` method (and `ComplementMut::comp`, `MaskableMut::{mask,unmask}`,
codec-to-codec `From`/`TryFrom`) is a closed, loop-free leaf function over a
domain of at most 256 points.  They are evaluated by constant propagation over
their MIR, one literal input at a time (DESIGN.md E1).  A function that does
not fold to a constant, a definite panic or `None` on some input yields TOP and
the rule using it fails closed.
"""
import terms
from terms import I, Analysis, Policy, show

CODEC_TRAIT = "codec::Codec"


class InlineAll(Policy):
    def inline(self, callee, body, depth):
        return True


class Sym:
    """A codec symbol: enum variant or newtype value."""

    def __init__(self, name, term, code):
        self.name = name
        self.term = term
        self.code = code

    def __repr__(self):
        return self.name


def result_kind(codec, paths):
    """Classify the outcome of a constant-input evaluation."""
    if len(paths) > 1 and all(p.end == "panic" for p in paths):
        return ("panic", paths[0].panic)
    if len(paths) != 1:
        return ("top", "%d paths" % len(paths))
    p = paths[0]
    if p.end == "panic":
        return ("panic", p.panic)
    if p.end != "return":
        return ("top", p.end)
    return value_kind(codec, p.ret)


def value_kind(codec, t):
    if not isinstance(t, tuple):
        return ("top", "non-term")
    if t[0] == "agg" and t[1] == "std::option::Option":
        if t[3] == "None":
            return ("none",)
        k = value_kind(codec, t[4][0])
        if k[0] == "sym":
            return ("some", k[1])
        return ("top", "Some(%s)" % show(t[4][0]))
    if t[0] == "agg" and t[1] == "std::result::Result":
        if t[3] == "Ok":
            k = value_kind(codec, t[4][0])
            return ("ok", k[1]) if k[0] == "sym" else ("top", show(t))
        return ("err", t[4][0])
    if t[0] == "agg" and codec is not None and t[1] == codec.ty:
        return ("sym", codec.sym_name(t))
    if t[0] == "agg" and t[1] in CodecSet.current.by_ty:
        return ("sym", CodecSet.current.by_ty[t[1]].sym_name(t))
    if t[0] == "int":
        return ("int", t[1], t[2])
    if t[0] == "invalid_enum":
        return ("invalid", t[2])
    return ("top", show(t))


class CodecModel:
    def __init__(self, cs, ty, trait_path=CODEC_TRAIT):
        self.trait_path = trait_path
        self.cs = cs
        self.eng = cs.eng
        self.crate = cs.crate
        self.ty = ty
        self.adt = cs.crate.adts.get(ty)
        self.short = ty.replace("codec::", "")
        self.bits = cs.crate.const_val("<%s as %s>::BITS" % (ty, trait_path))
        self.is_enum = self.adt is not None and self.adt["kind"] == "enum"
        self.derived = None
        self.where = None
        self.symbols = []
        self._tables = {}
        self.problems = []
        self._build_symbols()

    def method(self, name, trait=None):
        return self.crate.body("<%s as %s>::%s" % (self.ty, trait or self.trait_path, name))

    def sym_name(self, t):
        if self.is_enum:
            return t[3]
        # newtype: name by payload
        if t[4] and t[4][0][0] == "int":
            return "%s(%d)" % (self.ty.split("::")[-1], t[4][0][1])
        return show(t)

    def sym_term(self, name):
        for s in self.symbols:
            if s.name == name:
                return s.term
        return None

    def _build_symbols(self):
        b = self.method("items")
        self.where = b["span"] if b else None
        items = None
        if b:
            for bl in b["blocks"]:
                for s in bl["stmts"]:
                    if s["k"] == "assign" and s["rv"]["k"] == "aggregate" and s["rv"]["ak"] == "array":
                        # evaluate the operands in a throw-away frame
                        items = s["rv"]
            if items is not None:
                an = Analysis(self.eng, InlineAll())
                try:
                    paths = an.run(b)
                except terms.Budget:
                    paths = []
                elems = None
                for p in paths:
                    for lv, val in p.stores:
                        if isinstance(val, tuple) and val[0] == "array":
                            elems = val[1]
                    if elems is None and p.end == "return":
                        for t in terms.walk(p.ret):
                            if t[0] == "array":
                                elems = t[1]
                # the list may also be an array of raw values mapped through the codec's tuple-struct constructor
                # (`[b'A', ..].into_iter().map(Dna)`)
                for p in paths:
                    if p.end != "return":
                        continue
                    for t in terms.walk(p.ret):
                        if t[0] == "call" and " as std::iter::Iterator>::map::<" in t[1] and len(t[2]) == 2 and isinstance(t[2][1], tuple) and \
                                t[2][1][0] == "fn" and (t[2][1][1] == self.ty or t[2][1][1].startswith(self.ty + "::")):
                            arr = [x for x in terms.walk(t[2][0]) if x[0] == "array"]
                            if len(arr) == 1:
                                vname = self.ty.split("::")[-1]
                                elems = tuple(("agg", self.ty, 0, vname, (x,)) for x in arr[0][1])
                if elems is not None:
                    for e in elems:
                        if e[0] == "agg" and e[1] == self.ty:
                            self.symbols.append(Sym(self.sym_name(e), e, None))
                        else:
                            self.problems.append("items(): element %s is not a constant symbol" % show(e))
        if not self.symbols:
            self.problems.append("items(): symbol list not readable")
        self.items_order = [s.name for s in self.symbols]
        # declared variants (enum codecs)
        self.variants = []
        if self.is_enum:
            for i, v in enumerate(self.adt["variants"]):
                self.variants.append((v["name"], int(v["discr"])))

    # ----- tables by constant propagation -----
    def eval_fn(self, body, args, init=None):
        an = Analysis(self.eng, InlineAll())
        try:
            return an.run(body, args, init_env=init)
        except terms.Budget as e:
            return []

    def table_u8(self, method):
        """method: u8 -> X evaluated on all 256 byte values."""
        if method in self._tables:
            return self._tables[method]
        b = self.method(method)
        if b is None:
            self._tables[method] = None
            return None
        out = []
        for v in range(256):
            paths = self.eval_fn(b, [I(v, "u8")])
            out.append(result_kind(self, paths))
        self._tables[method] = out
        return out

    def sym_fn(self, method, trait=None):
        """method: Self -> X evaluated on every symbol."""
        key = (trait, method)
        if key in self._tables:
            return self._tables[key]
        b = self.method(method, trait)
        if b is None:
            self._tables[key] = None
            return None
        out = {}
        for s in self.symbols:
            paths = self.eval_fn(b, [s.term])
            out[s.name] = result_kind(self, paths)
        self._tables[key] = out
        return out

    def sym_mut_fn(self, method, trait):
        """method: &mut Self -> () evaluated on every symbol; returns new symbol."""
        key = (trait, method)
        if key in self._tables:
            return self._tables[key]
        b = self.method(method, trait)
        if b is None:
            self._tables[key] = None
            return None
        out = {}
        for s in self.symbols:
            paths = self.eval_fn(b, [("ref", True, ("local", 10000))], init={10000: s.term})
            if len(paths) != 1:
                out[s.name] = ("top", "%d paths" % len(paths))
                continue
            p = paths[0]
            if p.end == "panic":
                out[s.name] = ("panic", p.panic)
            elif p.end == "return":
                out[s.name] = value_kind(self, p.env.get(10000))
            else:
                out[s.name] = ("top", p.end)
        self._tables[key] = out
        return out

    def has_impl(self, trait):
        return self.crate.body("<%s as %s>::%s" % (self.ty, trait, {"ComplementMut": "comp", "MaskableMut": "mask"}[trait])) is not None


class CodecSet:
    current = None

    def __init__(self, facts, eng, crate=None):
        self.facts = facts
        self.crate = crate if crate is not None else facts.bio
        self.eng = eng
        self.by_ty = {}
        CodecSet.current = self
        tys = []
        for im in self.crate.impls:
            if im["trait"] == CODEC_TRAIT or (crate is not None and (im["trait"] or "").endswith("::Codec")):
                tys.append((im["self_ty"], im))
        for ty, im in sorted(tys):
            m = CodecModel(self, ty, im["trait"])
            m.derived = bool(im.get("exp")) or bool(im.get("derived"))
            m.impl = im
            self.by_ty[ty] = m

    def __iter__(self):
        return iter(self.by_ty.values())

    def get(self, short):
        return self.by_ty.get("codec::" + short)
