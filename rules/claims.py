"""What MANIFEST.json claims.  Edited by hand as checks are completed."""
TRUST = ("Trusted: rustc (MIR construction, trait resolution, const evaluation) on the pre-installed nightly; bitvec 1.1.1 / std "
         "semantics as summarised in the model rows of DESIGN.md appendix A; the oracle files under oracle/; little-endian 64-bit target. ")
SOURCE_COMMITS = []
FIX_COMMITS = ["ae2da57", "a6bd5b1", "5888761", "4f0e07a", "98a9f66", "88a696c", "e497ea8", "279ff04"]
NOT_APPLICABLE = {}
CLAIMS = {
    "C05": {
        "technique": "exhaustive table extraction by constant propagation over MIR; relational table checks vs declaration and oracle",
        "level": "Complete at symbol level: every Codec method of every codec is folded over its whole finite domain (256 bytes / all symbols) "
                 "from the type-checked MIR in every build configuration, and the tables are compared with each other, with the enum "
                 "declarations and with an independent oracle (documented alphabets, IUPAC sets, NCBI table 1). Static, exhaustive over a finite domain.",
        "note": TRUST + "Decides the whole property (finite domain). text::Dna is treated as the documented identity codec for bit patterns.",
    },
}
