"""What MANIFEST.json claims.  Edited by hand as checks are completed."""
TRUST = ("Trusted: rustc (MIR construction, trait resolution, const evaluation) on the pre-installed nightly; bitvec 1.1.1 / std "
         "semantics as summarised in the model rows of DESIGN.md appendix A; the oracle files under oracle/; little-endian 64-bit target. "
         "Common to all checks: guards are compared as integer facts; every unsigned subtraction on an analysed path must be ordered by that "
         "path's conditions (I-underflow); changes to the frozen panicking preconditions are reported (I-assert); items that moved between "
         "modules are mapped back to their frozen names (rules/canon.py). Run in three build configurations (quick) or four (thorough). ")
SOURCE_COMMITS = []
FIX_COMMITS = ["ae2da57", "a6bd5b1", "5888761", "4f0e07a", "98a9f66", "88a696c", "e497ea8", "279ff04"]
NOT_APPLICABLE = {}
CATEGORY = {"C17": "translation_validation"}
CLAIMS = {
    "C05": {
        "technique": "exhaustive table extraction by constant propagation over MIR; relational table checks vs declaration and oracle",
        "level": "Complete at symbol level: every Codec method of every codec is folded over its whole finite domain (256 bytes / all symbols) "
                 "from the type-checked MIR in every build configuration, and the tables are compared with each other, with the enum "
                 "declarations and with an independent oracle (documented alphabets, IUPAC sets, NCBI table 1). Static, exhaustive over a finite domain.",
        "note": TRUST + "Decides the whole property (finite domain). text::Dna is treated as the documented identity codec for bit patterns.",
    },
    "C03": {
        "technique": "affine range table over the bit ranges handed to bitvec's checked Index + transparent-cast typestate + guard row",
        "level": "Decides, for every codec width at once, that each of the 7 Index forms passes exactly [BITS*a, BITS*b) (a,b by core::ops "
                 "semantics) to bitvec's checked Index and returns the pointer cast of that BitSlice (repr(transparent) verified), that "
                 "get is Some iff i<len, nth/get decode Index<usize>, len=bits/BITS; nesting composes because rows are affine maps.",
        "note": TRUST + "Necessary structural conditions; bitvec's own range arithmetic and bounds check are trusted (model row).",
    },
    "C11": {
        "technique": "guard table: exact iterator transitions (success guard, item, state update, initial state) from path-partitioned MIR dataflow",
        "level": "Decides the exact transition relation of SeqIter, RevIter and SeqChunks (windows/chunks) and their constructors as canonical "
                 "linear guards and affine updates; item counts, order and termination (w>=1) follow arithmetically. Field roles are inferred "
                 "from constructors, so private renames do not matter.",
        "note": TRUST + "Imports C03 rows for what a slice/index denotes. std Iterator::chain/map/collect trusted.",
    },
    "C06": {
        "technique": "per-mutator effect summaries (ordered bit-range concatenations) + symbol-alignment typestate over all Seq constructors and in-place effects",
        "level": "Decides each edit operation's effect on the bit vector as an ordered concatenation of whole-symbol ranges equal to the list model "
                 "(push/append/prepend/insert/remove for all 9 Bound combinations/truncate/clear/extend/FromIterator), the insert assertion, and that "
                 "every constructor and in-place effect keeps the length a whole number of symbols - the inductive step that stands in for all histories.",
        "note": TRUST + "bitvec extend_from_bitslice/drain/truncate semantics trusted (model rows).",
    },
    "C04": {
        "technique": "endianness/bit-order scan of all resolved load/store/view call sites + guard rows (try_from, from_raw) + head-alignment typestate over every Seq constructor and in-place effect",
        "level": "Decides the structural necessary conditions of the documented packing: all integer reads are load_le, writes store/store_le, views Lsb0; "
                 "usize::try_from refuses exactly when bits > 64 with the documented payload; KmerStorage word decomposition for usize/u64/u128; "
                 "from_raw compares symbols with symbols (n <= bits/BITS) and truncates to n*BITS; every Seq constructor/effect yields a vector "
                 "starting at bit 0 (bitvec head column), which into_raw/from_raw need.",
        "note": TRUST + "The numeric result of bitvec load_le/store on word-straddling regions is trusted; little-endian target assumed for native `store`.",
    },
    "C08": {
        "technique": "guard table for KmerIter/try_from/from_str + bit-extent rows for Pack/Deref/Display + storage rows",
        "level": "Decides the exact KmerIter transition (same row as windows(K)), kmers() initial state, try_from Ok iff len=K with payload, from_str order "
                 "(length test, strict parse with ?, try_from), Display chunking of storage[0,K*BITS) by BITS through load_le/unsafe_from_bits/to_char, "
                 "Deref extent, From<Kmer> for Seq order, and the KmerStorage to_bitarray/from_bitslice rows for all three storage types.",
        "note": TRUST + "kmer! is macro_rules glue over dna! (C16) and unsafe_from_seqslice (decided here); bitvec chunks/load_le trusted.",
    },
    "C13": {
        "technique": "table rule: Amino codes and alts (from the derived decoders' MIR) vs NCBI table 1 under the documented packing, all 64 codons + guard row for to_amino",
        "level": "Exhaustive over the finite domain at symbol level: all 64 codons pack (Dna codes, Lsb0, 2 bits each) to a 6-bit pattern whose Amino decoding equals "
                 "NCBI table 1; to_amino asserts len==3 then returns unsafe_from_bits(load_le::<u8>(content)). Offset independence rests on C03/C04 rows.",
        "note": TRUST + "The value of load_le on a word-straddling codon is bitvec's (trusted).",
    },
    "C14": {
        "technique": "row-table semantics: 29 rustc-evaluated IUPAC rows x verified first-match search vs NCBI table 1 over all 16^3 codons; inverse-map shape + per-amino semantics",
        "level": "Establishes the search's shape (length test, ordered first-match with contains, error variants) from MIR, reads the rows from the evaluated statics, then "
                 "decides soundness and completeness for all 3375 gap-free codons and the exactness of reverse translation for all 21 amino acids by finite enumeration.",
        "note": TRUST + "contains = per-position subset relies on C12 rows; HashMap/OnceLock trusted.",
    },
    "C15": {
        "technique": "order-insensitive inverse-map shape (per-key state machine absent->Some, present->None) + variant flow of lookups",
        "level": "Decides that from_map's inverse depends only on preimage counts (not on iteration order), that try_to_amino is get(codon) with InvalidCodon(codon) on miss, "
                 "and the exact Some(Some)/Some(None)/None -> Ok/AmbiguousCodon/InvalidAmino flow of try_to_codon.",
        "note": TRUST + "HashMap semantics trusted; lookup by slice relies on C02's Borrow/Hash/Eq rows.",
    },
    "C07": {
        "technique": "chunk-loop shape rules (reverse-all then per-chunk reverse; per-chunk decode/complement/encode in place) + symbol involution tables + default-method provenance + reachability of &mut SeqSlice",
        "level": "Decides the structure that makes rev/comp/revcomp exact: whole-content reverse followed by per-symbol reverse over an exact BITS chunking; per-chunk "
                 "in-place complement through load_le/unsafe_from_bits/comp/to_bits/store on the same chunk; revcomp = comp and rev (default, not overridden); to_* = to_owned then op; "
                 "comp is an involution on every symbol of the five complementable codecs (exhaustive tables).",
        "note": TRUST + "bitvec reverse/chunking on word-straddling symbols trusted. SeqSlice's &mut impls are dormant while no safe API yields &mut SeqSlice (checked).",
    },
    "C12": {
        "technique": "one-hot code table vs IUPAC sets (exhaustive) + operator/trait correspondence shapes + guard rows for the three contains",
        "level": "Decides that Iupac codes are the set unions (so | and & are union/intersection), From<Dna> gives singletons, complement is the set image; that & and | on slices "
                 "copy lhs then and/or-assign rhs (and the owned forms use BitVec & / |), and that contains is false on unequal lengths and otherwise (self & rhs) == rhs.",
        "note": TRUST + "bitvec op-assign across different alignments trusted (model row).",
    },
    "C20": {
        "technique": "exhaustive mask/unmask/comp symbol tables by constant propagation + chunk-loop shape rule with sibling cross-check (mask loop calls mask, unmask loop calls unmask)",
        "level": "Complete at symbol level for both masked codecs (case change only, idempotence, unmask after mask, set preservation, commutation with complement; Dna toggle involution "
                 "fixing gap/pad); at sequence level decides the position-wise in-place loop shape and the to_mask/to_unmask defaults.",
        "note": TRUST + "bitvec load_le/store on 5-bit chunks straddling words trusted.",
    },
    "C01": {
        "technique": "codec table agreement (exhaustive) + parser/display pipeline normal forms over the resolved impl set",
        "level": "Decides that every text/byte entry point reduces to one strict per-byte parser (try_from_ascii(b).ok_or(UnrecognisedBase(b)) over the same bytes in order, "
                 "payload = the byte itself), that collecting is one push per item and push appends exactly BITS Lsb0 bits, that display is map(to_char) over the symbol iterator, "
                 "and (exhaustively) that each codec's ASCII table accepts exactly its documented alphabet and inverts to_char.",
        "note": TRUST + "collect::<Result<..>> short-circuit order and bitvec append order across word boundaries are std/bitvec rows.",
    },
    "C19": {
        "technique": "conversion tables by constant propagation (exhaustive) + map/collect normal form + affine rows and closure normal forms for trim_u8",
        "level": "Complete at symbol level (Dna->Iupac/text keep the letter; text->Dna Ok exactly on A,C,G,T over all 256 bytes); decides the length/order-preserving shape of the three "
                 "sequence conversions and the exact start/end/parse structure of trim_u8 with the parser's own acceptance predicate.",
        "note": TRUST + "std position/rposition/map/collect semantics trusted.",
    },
    "C02": {
        "technique": "eq/hash feed normal forms over the resolved impl set (crate-local impls and std &A==&B forwarding inlined) + guard rows for length tests + Borrow rows",
        "level": "Decides for all 17 PartialEq impls that they reduce to bitvec == on the two contents (or, for k-mers, a length-guarded storage comparison with the packed content), "
                 "that all three Hash impls feed the same [content bits, symbol count] sequence (k-mer: storage[0,K*BITS), K), the SeqSlice==&str guards and per-element operations, "
                 "and that Borrow<SeqSlice> returns content(self).",
        "note": TRUST + "bitvec's alignment-independent == and per-bit Hash are model rows; hasher behaviour is out of scope.",
    },
    "C09": {
        "technique": "bit-extent rows for rotate/push + canonical-form typestate over every Kmer construction + reachability of 2-bit-only primitives + guard row for the complement mask",
        "level": "Decides the extents and amounts of rotation and push, that every packed k-mer takes an extent inside the content (I-canon, with enumerated exceptions), that "
                 "1<<m is guarded by m<64, that the 2-bit block reversal is reached only for 2-bit codecs (and REV_2BIT is that reversal for all 256 bytes), and the generic "
                 "reversal's shape on storage[0,K*BITS).",
        "note": TRUST + "bitvec rotate/store semantics trusted; u64/u128 complement/rev_blocks_2 are unreachable from public impls (dormant).",
    },
    "C10": {
        "technique": "comparator provenance (what each Ord/PartialOrd impl compares, in which traversal order) over the resolved impl set",
        "level": "Decides that Kmer's order is the numeric order of storage (hence colex given C04/C09), Dna codes are 0..3 in A<C<G<T, and that Seq's cmp compares the reversed "
                 "traversal of both operands by the same adaptor chain (most significant end first), partial_cmp = Some(cmp).",
        "note": TRUST + "Iterator::cmp and integer comparison are std; colex = numeric order uses C04 packing and C09 canonical form as hypotheses.",
    },
    "C16": {
        "technique": "macro/codec table agreement read from the proc-macro's MIR + rustc-evaluated statics of generated literals vs runtime packing + compile_fail witnesses with compiling twins",
        "level": "Decides table agreement and exact alphabets of dna!/iupac! (all characters), the Err->compile-error and Ok->gen_seqarray flow, and - by translation validation of "
                 "generated literals of lengths 0..200+ at all word boundaries - that the evaluated static (codec, N, W, words) equals the runtime packing; invalid literals are "
                 "witnessed not to compile (23 cases with twins). kmer! is covered through its two components and K pinned by type.",
        "note": TRUST + "Instance validation for gen_seqarray (quote!-generated tokens are not analysed symbolically); rustc const evaluation trusted.",
    },
    "C17": {
        "technique": "translation validation of derive instances (generated enum declarations compiled under the extractor; derived tables vs declaration) + interval rule on the generator's narrow arithmetic + compile_fail witnesses",
        "level": "For 4 in-tree and 24 (thorough: 64, both profiles) generated declarations the derived impl's tables folded from MIR equal the declaration exactly (BITS, codes, alts, "
                 "display, refusal, unsafe agreement, items order); u8/u16 arithmetic in the derive is interval-checked overflow-free; malformed declarations are witnessed not to compile.",
        "note": TRUST + "Instance validation: f32::log2/ceil exactness is covered at every power-of-two boundary up to 255 but not proved.",
    },
    "C18": {
        "technique": "derive/feature wiring read from the generated Serialize/Deserialize MIR + Cargo feature graph",
        "level": "Wiring only: derived impls exist for Seq and Kmer; the serializer emits each declared field once, by name, unconditionally; the deserializer recognises the same names, "
                 "builds the struct from successive elements and errors (no default) on a missing one; feature serde enables serde derive and bitvec/serde.",
        "note": TRUST + "That bitvec's and the integers' serde impls round-trip in bincode/JSON is trusted; equality after a round trip is not decided.",
    },
}
