"""Check framework: obligations, violations, known findings, evidence."""
import hashlib
import json
import os
import sys
import time

VERIF = os.path.dirname(os.path.dirname(os.path.abspath(__file__)))
EVID = os.environ.get("BSQ_EVID") or os.path.join(VERIF, "evidence")


class Violation:
    def __init__(self, pid, rule, anchor, kind, detail, where=None, cfg=None, via=None):
        self.pid = pid
        self.rule = rule
        self.anchor = anchor
        self.kind = kind
        self.detail = detail
        self.where = where
        self.cfg = cfg
        self.via = via

    @property
    def key(self):
        return "%s/%s/%s/%s" % (self.pid, self.rule, self.anchor, self.kind)

    def to_json(self):
        return {"key": self.key, "property": self.pid, "rule": self.rule, "anchor": self.anchor,
                "kind": self.kind, "detail": self.detail, "where": self.where, "config": self.cfg,
                "via": self.via}


class Check:
    def __init__(self, pid, tier="quick", seed=0):
        self.pid = pid
        self.tier = tier
        self.seed = seed
        self.t0 = time.time()
        self.obligations = 0
        self.discharged = 0
        self.evaluations = 0
        self.rule_sites = {}        # rule id -> number of sites it matched
        self.violations = {}        # key -> Violation (deduplicated across configs)
        self.samples = []
        self.notes = []
        self.dormant = []
        self.floors = {}
        self.counts = {}
        self.configs = []
        self.explanation = ""
        self.not_decided = []
        self.assumptions = []
        self.technique = ""
        self.cfg = None

    # ----- recording -----
    def ob(self, rule, anchor, ok, detail="", where=None, kind="mismatch", sample=None, evals=1):
        """Record one obligation (rule instance at a site)."""
        self.obligations += 1
        self.evaluations += evals
        self.rule_sites[rule] = self.rule_sites.get(rule, 0) + 1
        if ok:
            self.discharged += 1
            if sample is not None and len([s for s in self.samples if s.get("rule") == rule]) < 2:
                self.samples.append({"rule": rule, "anchor": anchor, "found": sample, "config": self.cfg})
        else:
            v = Violation(self.pid, rule, anchor, kind, detail, where, self.cfg)
            if v.key not in self.violations:
                self.violations[v.key] = v
        return ok

    def fail(self, rule, anchor, kind, detail, where=None):
        return self.ob(rule, anchor, False, detail, where, kind)

    def cannot(self, rule, anchor, detail, where=None):
        return self.ob(rule, anchor, False, detail, where, "cannot-establish")

    def floor(self, name, found, floor):
        """A rule that matched fewer sites than were counted by hand fails closed."""
        self.floors[name] = {"found": found, "floor": floor}
        self.obligations += 1
        if found >= floor:
            self.discharged += 1
            return True
        v = Violation(self.pid, "floor", name, "count-below-floor",
                      "rule matched %d sites, at least %d were confirmed by hand" % (found, floor), None, self.cfg)
        self.violations.setdefault(v.key, v)
        return False

    def count(self, name, n=1):
        self.counts[name] = self.counts.get(name, 0) + n

    def note(self, s):
        if s not in self.notes:
            self.notes.append(s)

    def dormant_rule(self, rule, anchor, why):
        e = {"rule": rule, "anchor": anchor, "why": why}
        if e not in self.dormant:
            self.dormant.append(e)

    # ----- finishing -----
    def finish(self):
        os.makedirs(EVID, exist_ok=True)
        os.makedirs(os.path.join(EVID, "replay"), exist_ok=True)
        kf_path = os.path.join(VERIF, "known_findings.json")
        known = {}
        try:
            with open(kf_path) as fh:
                for e in json.load(fh).get("findings", []):
                    if e.get("property") == self.pid:
                        known[e["key"]] = e
        except OSError:
            pass
        real = []
        knownhit = []
        for k, v in sorted(self.violations.items()):
            if k in known:
                knownhit.append((v, known[k]))
            else:
                real.append(v)
        for v, e in knownhit:
            print("KNOWN-FINDING: property=%s %s" % (self.pid, e.get("what", v.key)))
        for v in real:
            h = hashlib.sha256(v.key.encode()).hexdigest()[:12]
            rp = os.path.join(EVID, "replay", "%s-%s.json" % (self.pid, h))
            with open(rp, "w") as fh:
                json.dump(v.to_json(), fh, indent=1)
            print("%s: %s [%s] %s: %s%s" % (v.where or "?", v.rule, v.kind, v.anchor, v.detail,
                                           " (config %s)" % v.cfg if v.cfg else ""))
            print("VIOLATION property=%s replay=%s" % (self.pid, rp))
        distinct = len([r for r, n in self.rule_sites.items() if n > 0])
        ev = {
            "property_id": self.pid,
            "tier": self.tier,
            "seed": self.seed,
            "level": getattr(self, "level", "other"),
            "coverage": {
                "explanation": self.explanation,
                "technique": self.technique,
                "not_decided": self.not_decided,
                "configurations": self.configs,
                "obligations": self.obligations,
                "discharged": self.discharged,
                "evaluations": max(self.evaluations, 1),
                "distinct_nontrivial": distinct,
                "rule": "one obligation per (rule instance, site, configuration); 'evaluations' counts table points / "
                        "program points examined; distinct_nontrivial = distinct rule ids that matched at least one site",
                "rule_sites": self.rule_sites,
                "floors": self.floors,
                "counts": self.counts,
                "dormant": self.dormant,
                "notes": self.notes,
                "samples": self.samples[:12] or [{"note": "no discharged obligation carried a sample"}],
                "known_findings_reported": [e.get("key") for _, e in knownhit],
                "violations": [v.to_json() for v in real],
                "tree": self.tree if hasattr(self, "tree") else None,
                "exhaustive": bool(getattr(self, "coverage_exhaustive", False)),
            },
            "assumptions": self.assumptions,
            "wall_s": round(time.time() - self.t0, 2),
            "violations": len(real),
        }
        try:
            import facts as _facts
            ren = {}
            for cfgname, fx in _facts._loaded.items():
                for k, v in fx.renames.items():
                    ren.setdefault(k, v)
            # items read under their frozen names (moved between modules, generic parameters renamed): rules/canon.py
            ev["coverage"]["canonicalised_names"] = dict(sorted(ren.items())[:200])
        except Exception:
            pass
        ev["coverage"].update(getattr(self, "extra_cov", {}))
        with open(os.path.join(EVID, self.pid + ".json"), "w") as fh:
            json.dump(ev, fh, indent=1, default=str)
        print("%s: tier=%s configs=%s obligations=%d discharged=%d violations=%d known=%d wall=%.1fs" % (
            self.pid, self.tier, ",".join(self.configs), self.obligations, self.discharged, len(real),
            len(knownhit), time.time() - self.t0))
        return 1 if real else 0


_DECLS = None


def _decls(tier):
    """enum declarations (configuration independent); shared by every imported evaluation"""
    global _DECLS
    if _DECLS is None:
        import ctx as ctxmod
        _DECLS = ctxmod.Ctx(tier).decls
    return _DECLS


def import_rows(chk, cfg, owner, modname, rules):
    """Evaluate, for one configuration, the rows of another property's module that this property depends on.
    A violation in an imported row is reported under the importing property too, tagged via=<owner>."""
    sub = Check(owner, chk.tier, chk.seed)
    sub.cfg = cfg.name
    m = __import__(modname, fromlist=["x"])
    one = type("OneCfg", (), {"configs": lambda self, need_all_features=False: [cfg], "decls": _decls(chk.tier), "tier": chk.tier,
                              "bitvec_version": lambda self: "1.1.1", "cfg": lambda self, n: cfg})()
    try:
        m.run(one, sub)
    except Exception as e:   # pragma: no cover
        chk.cannot("import/" + owner, owner, "imported rows could not be evaluated: %r" % e)
        return
    n = 0
    for k, v in sub.violations.items():
        if any(v.rule.startswith(r) for r in rules):
            chk.ob("via=%s/%s" % (owner, v.rule), v.anchor, False, v.detail, v.where, v.kind)
    for r, cnt in sub.rule_sites.items():
        if any(r.startswith(x) for x in rules):
            n += cnt
            bad = len([v for v in sub.violations.values() if v.rule == r])
            for _ in range(max(0, cnt - bad)):
                chk.ob("via=%s/%s" % (owner, r), owner, True)
    chk.count("imported rows from %s[%s]" % (owner, cfg.name), n)


CODEC_CORE = ("T-rt-bits", "T-unsafe-bits", "T-inj-bits", "T-width", "T-accept-bits")


_ACTIVE = []


def import_codec_core(chk, cfg):
    """Every property that speaks of "the symbol at position i" or "the code of a symbol" rests on the codec's own tables being
    consistent: to_bits injective and within BITS, try_from_bits its inverse, unsafe_from_bits agreeing with try_from_bits.  Those
    rows are C05's; they are evaluated here too, so that a decoder changed for one codec is reported under the property it breaks."""
    import_rows(chk, cfg, "C05", "props.C05", CODEC_CORE)
    # ... and on the one place where a stored symbol is read back as an integer: `u8::from(&slice)` of a one-symbol slice (C03 S-byte)
    if chk.pid != "C03" and "C03" not in _ACTIVE:
        _ACTIVE.append("C03")
        try:
            import_rows(chk, cfg, "C03", "props.C03", ("S-byte",))
        finally:
            _ACTIVE.pop()
