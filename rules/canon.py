"""Name canonicalisation: keep the frozen rule tables valid when an item moves between modules.

The rule tables (appendices of DESIGN.md) name items by the definition paths of the pinned tree
(`seq::slice::SeqSlice`, `kmer::KmerIter`, `ComplementMut`, ...).  Moving a type, trait, function,
constant or module elsewhere in the crate - re-exporting it so that every path users can write still
resolves - changes its definition path and nothing else.  The extractor therefore dumps, besides the
definitions, every `use` alias of the crate (module_children of rustc's resolver), and this module maps
each item of the analysed tree back to the frozen name of the item it *is*:

  1. same definition path and kind as a frozen item                      -> itself
  2. one of its aliases is the definition path of a frozen item          -> that frozen item
     (the item moved, its old path is kept as a re-export)
  3. it shares an alias with exactly one frozen item of the same simple name and kind that no longer
     exists under its frozen path                                         -> that frozen item
     (the item moved out of a private module; both are still reachable as e.g. `prelude::Seq`)
  4. it is the only item of its simple name and kind not accounted for by rules 1-3, and exactly one frozen
     item of that name and kind is missing from the tree and not yet assigned      -> that frozen item
     (a private item moved without leaving an alias)

The fact text is then rewritten with the frozen names (whole-path matches only), modules are mapped by the
items they contain, and the list of renames is reported in the evidence.  Nothing is renamed on the pinned
tree.  An item that cannot be mapped keeps its new name and the rules that need it fail closed (anchor not
found), as before.
"""
import json
import os
import re

VERIF = os.path.dirname(os.path.dirname(os.path.abspath(__file__)))
FROZEN_FILE = os.path.join(VERIF, "oracle", "frozen_names.json")
_frozen = None


def frozen():
    global _frozen
    if _frozen is None:
        try:
            with open(FROZEN_FILE) as fh:
                _frozen = json.load(fh)
        except OSError:
            _frozen = {}
    return _frozen


_fns = None


def frozen_fns():
    """paths of every function of the pinned tree (all feature sets)"""
    global _fns
    if _fns is None:
        _fns = set()
        for crate, per in frozen().items():
            if isinstance(per, dict):
                for key, tab in per.items():
                    _fns.update(tab.get("fns", ()))
    return _fns


def _kind(k):
    return re.sub(r"[ ({].*$", "", k or "")


def name_tables(names):
    """(defs: path -> kind, aliases: path -> target def path)"""
    defs, aliases = {}, {}
    for n in names:
        if n.get("def"):
            defs[n["path"]] = _kind(n["kind"])
        else:
            aliases.setdefault(n["path"], n["target"])
    return defs, aliases


def freeze(names):
    defs, aliases = name_tables(names)
    return {"defs": defs, "aliases": aliases}


def _alias_sets(defs, aliases):
    out = {d: {d} for d in defs}
    for a, t in aliases.items():
        if t in out:
            out[t].add(a)
    return out


def compute_renames(names, fz):
    """current definition path -> frozen definition path (only entries that differ)"""
    if not fz:
        return {}
    defs, aliases = name_tables(names)
    fdefs, faliases = fz["defs"], fz["aliases"]
    cur_sets = _alias_sets(defs, aliases)
    fz_sets = _alias_sets(fdefs, faliases)
    ren = {}
    taken = set()
    missing = {f for f in fdefs if f not in defs or defs[f] != fdefs[f]}
    simple = lambda p: p.split("::")[-1]
    # rule 2
    for d, k in defs.items():
        if d in fdefs and fdefs[d] == k:
            continue
        c = [a for a in cur_sets[d] if a in missing and fdefs[a] == k and simple(a) == simple(d)]
        if len(c) == 1 and c[0] not in taken:
            ren[d] = c[0]
            taken.add(c[0])
    # rule 3
    for d, k in defs.items():
        if d in ren or (d in fdefs and fdefs[d] == k):
            continue
        c = [f for f in missing if f not in taken and fdefs[f] == k and simple(f) == simple(d) and (fz_sets[f] - {f}) & (cur_sets[d] - {d})]
        if len(c) == 1:
            ren[d] = c[0]
            taken.add(c[0])
    # rule 4
    for d, k in defs.items():
        if d in ren or (d in fdefs and fdefs[d] == k) or k == "Mod":
            continue
        # among the items of this simple name and kind, those not yet accounted for on either side (an item that kept its path,
        # or was mapped by rules 2-3, is accounted for): one left over on each side is the same item
        same_cur = [x for x in defs if simple(x) == simple(d) and defs[x] == k and x not in ren and not (x in fdefs and fdefs[x] == k)]
        c = [f for f in missing if f not in taken and fdefs[f] == k and simple(f) == simple(d)]
        if len(same_cur) == 1 and len(c) == 1:
            ren[d] = c[0]
            taken.add(c[0])
    # modules: a module that is new (or renamed) maps to the frozen module most of its mapped items came from,
    # provided that frozen module no longer exists under its own name
    mods = [m for m, k in defs.items() if k == "Mod" and m not in fdefs and m not in ren]
    for m in sorted(mods, key=len):
        votes = {}
        for d, f in ren.items():
            if d.startswith(m + "::") and "::" not in d[len(m) + 2:]:
                pm = "::".join(f.split("::")[:-1])
                votes[pm] = votes.get(pm, 0) + 1
        if len(votes) == 1:
            pm = next(iter(votes))
            if pm and fdefs.get(pm) == "Mod" and pm not in defs and pm not in taken:
                ren[m] = pm
                taken.add(pm)
    return {d: f for d, f in ren.items() if d != f}


def rewrite(text, ren):
    """rewrite whole-path occurrences of renamed items in the fact text"""
    if not ren:
        return text
    items = sorted(ren.items(), key=lambda kv: -len(kv[0]))
    # two passes through placeholders so that chains (a -> b, b -> c) cannot cascade
    marks = {}
    for i, (d, f) in enumerate(items):
        mk = "\x00R%d\x00" % i
        marks[mk] = f
        # an item path: not preceded by a path character; followed by a non-identifier character.  A module prefix is
        # the same with `::` following, which the same pattern covers.
        text = re.sub(r"(?<![\w:])" + re.escape(d) + r"(?![\w])", mk, text)
    for mk, f in marks.items():
        text = text.replace(mk, f)
    return text


# ---------------------------------------------------------------------------------------------------------------------------
# Generic parameter names.  `impl<A: Codec> .. SeqIter<'_, A>` and `impl<'a, C> .. SeqIter<'a, C> where C: Codec` are the same
# impl; the rule tables spell the pinned tree's names.  Every function, impl and ADT is keyed by its path with its own type and
# const parameters replaced positionally ($0, $1, ..) and lifetimes erased; an item whose key exists in the frozen table gets
# the frozen parameter names back, in its own record and wherever another body names it in identity form.
_LT = re.compile(r"'\w+")


def _tygens(names):
    return [n for n in (names or []) if not n.startswith("'") and not n.startswith("<")]


def _gsub(text, m):
    """simultaneous whole-identifier replacement (never after `::`, so `Dna::C` is not the parameter `C`)"""
    if not m or not isinstance(text, str):
        return text
    rx = re.compile(r"(?<![\w:'])(" + "|".join(re.escape(k) for k in sorted(m, key=len, reverse=True)) + r")(?![\w])")
    return rx.sub(lambda mo: m[mo.group(1)], text)


def _ordered(text, names):
    """type/const parameters in the order of their first appearance in the item's path (so that `impl<const K: usize, C, S>` and
    `impl<A, const K: usize, S>` for the same `Kmer<_, _, _>` agree), the ones the path does not mention after them, as declared"""
    names = _tygens(names)
    t = _LT.sub("'_", text or "")
    pos = {}
    for n in names:
        m = re.search(r"(?<![\w:'])" + re.escape(n) + r"(?![\w])", t)
        pos[n] = m.start() if m else None
    inpath = sorted([n for n in names if pos[n] is not None], key=lambda n: pos[n])
    return inpath + [n for n in names if pos[n] is None]


def gkey(text, names):
    names = _ordered(text, names)
    return _gsub(_LT.sub("'_", text or ""), {n: "$%d" % i for i, n in enumerate(names)})


def _impl_key(imp):
    return gkey(imp.get("trait_ref") or imp.get("self_ty") or "", imp.get("generics"))


def freeze_generics(data):
    out = {"fn": {}, "impl": {}, "adt": {}}

    def put(tab, k, names, text=""):
        names = _ordered(text, names)
        if k in tab and tab[k] != names:
            tab[k] = None          # ambiguous: never renamed
        else:
            tab[k] = names
    for b in data["bodies"]:
        put(out["fn"], gkey(b["path"], b.get("generics")), b.get("generics"), b["path"])
    for f in data.get("fns", []):
        pass
    for i in data["impls"]:
        put(out["impl"], _impl_key(i), i.get("generics"), i.get("trait_ref") or i.get("self_ty") or "")
    for a in data["adts"]:
        put(out["adt"], a["path"], a.get("generics"))
    return out


def _rmap(names, fnames, text=""):
    names = _ordered(text, names)
    if not fnames or len(names) != len(fnames):
        return {}
    return {a: b for a, b in zip(names, fnames) if a != b}


def canon_generics(d, fz):
    """rewrite crate dict d in place; returns {item: "C->A, LEN->K"} for the evidence"""
    if not fz:
        return {}
    report = {}
    impl_R = {}
    for i in d["impls"]:
        impl_R[i["id"]] = _rmap(i.get("generics"), fz["impl"].get(_impl_key(i)), i.get("trait_ref") or i.get("self_ty") or "")
    body_R, path_R = {}, {}
    for b in d["bodies"]:
        R = None
        k = gkey(b["path"], b.get("generics"))
        if k in fz["fn"]:
            R = _rmap(b.get("generics"), fz["fn"][k], b["path"])
        else:
            # a new function (or a renumbered closure): the names of its impl, else of the enclosing function
            imp = b.get("impl") or {}
            if imp.get("id") in impl_R:
                R = impl_R[imp["id"]]
        body_R[b["id"]] = R
    # closures / nested items without a key inherit from the enclosing function
    by_path = {}
    for b in d["bodies"]:
        by_path.setdefault(b["path"], []).append(b)
    for b in d["bodies"]:
        if body_R[b["id"]] is None:
            par = b.get("parent")
            ps = by_path.get(par) or []
            body_R[b["id"]] = (body_R.get(ps[0]["id"]) if len(ps) == 1 else None) or {}
    for p, bs in by_path.items():
        rs = [body_R[b["id"]] for b in bs]
        if all(r == rs[0] for r in rs):
            path_R[p] = rs[0]
    if not any(body_R.values()) and not any(impl_R.values()) and \
            not any(_rmap(a.get("generics"), fz["adt"].get(a["path"])) for a in d["adts"]):
        return {}
    IDENT = ("def", "def_noargs", "resolved", "resolved_impl_self", "impl_self")

    def walk(x, R):
        if isinstance(x, str):
            return _gsub(x, R)
        if isinstance(x, list):
            return [walk(e, R) for e in x]
        if isinstance(x, dict):
            if "resolved" in x and "def" in x:
                Rc = path_R.get(x.get("resolved")) if x.get("resolved_local") else None
                if Rc is None and x.get("krate") == d["crate"]:
                    Rc = path_R.get(x.get("def"))
                return {k: (_gsub(v, Rc) if k in IDENT else walk(v, R)) for k, v in x.items()}
            return {k: walk(v, R) for k, v in x.items()}
        return x
    newb = []
    for b in d["bodies"]:
        R = body_R[b["id"]]
        if R:
            report[b["path"]] = ", ".join("%s->%s" % kv for kv in sorted(R.items()))
        # callee records are rewritten even when this body keeps its names
        newb.append(walk(b, R or {}))
    d["bodies"] = newb
    d["fns"] = [walk(f, path_R.get(f["path"]) or ((impl_R.get((f.get("impl") or {}).get("id"))) or {})) for f in d.get("fns", [])]
    d["impls"] = [walk(i, impl_R.get(i["id"]) or {}) for i in d["impls"]]
    d["adts"] = [walk(a, _rmap(a.get("generics"), fz["adt"].get(a["path"]))) for a in d["adts"]]
    d["evals"] = [walk(e, impl_R.get((e.get("impl") or {}).get("id")) or {}) for e in d.get("evals", [])]
    return report
