"""Name canonicalisation: keep the frozen rule tables valid when an item moves between modules.

The rule tables (appendices of DESIGN.md) name items by the definition paths of the pinned tree
(`seq::slice::SeqSlice`, `kmer::KmerIter`, `ComplementMut`, ...).  Moving a type, trait, function,
constant or module elsewhere in the crate - re-exporting it so that every path users can write still
resolves - changes its definition path and nothing else.  The extractor therefore dumps, besides the
definitions, every `use` alias of the crate (module_children of rustc's resolver), and this module maps
each item of the analysed tree back to the frozen name of the item it *is*:

  1. same definition path and kind as a frozen item                      -> itself
  2. one of its aliases is the definition path of a frozen item          -> that frozen item
     (the item moved, its old path is kept as a re-export)
  3. it shares an alias with exactly one frozen item of the same simple name and kind that no longer
     exists under its frozen path                                         -> that frozen item
     (the item moved out of a private module; both are still reachable as e.g. `prelude::Seq`)
  4. it is the only item of its simple name and kind in the tree, and exactly one frozen item of that
     name and kind is missing from the tree                               -> that frozen item
     (a private item moved without leaving an alias)

The fact text is then rewritten with the frozen names (whole-path matches only), modules are mapped by the
items they contain, and the list of renames is reported in the evidence.  Nothing is renamed on the pinned
tree.  An item that cannot be mapped keeps its new name and the rules that need it fail closed (anchor not
found), as before.
"""
import json
import os
import re

VERIF = os.path.dirname(os.path.dirname(os.path.abspath(__file__)))
FROZEN_FILE = os.path.join(VERIF, "oracle", "frozen_names.json")
_frozen = None


def frozen():
    global _frozen
    if _frozen is None:
        try:
            with open(FROZEN_FILE) as fh:
                _frozen = json.load(fh)
        except OSError:
            _frozen = {}
    return _frozen


def _kind(k):
    return re.sub(r"[ ({].*$", "", k or "")


def name_tables(names):
    """(defs: path -> kind, aliases: path -> target def path)"""
    defs, aliases = {}, {}
    for n in names:
        if n.get("def"):
            defs[n["path"]] = _kind(n["kind"])
        else:
            aliases.setdefault(n["path"], n["target"])
    return defs, aliases


def freeze(names):
    defs, aliases = name_tables(names)
    return {"defs": defs, "aliases": aliases}


def _alias_sets(defs, aliases):
    out = {d: {d} for d in defs}
    for a, t in aliases.items():
        if t in out:
            out[t].add(a)
    return out


def compute_renames(names, fz):
    """current definition path -> frozen definition path (only entries that differ)"""
    if not fz:
        return {}
    defs, aliases = name_tables(names)
    fdefs, faliases = fz["defs"], fz["aliases"]
    cur_sets = _alias_sets(defs, aliases)
    fz_sets = _alias_sets(fdefs, faliases)
    ren = {}
    taken = set()
    missing = {f for f in fdefs if f not in defs or defs[f] != fdefs[f]}
    simple = lambda p: p.split("::")[-1]
    # rule 2
    for d, k in defs.items():
        if d in fdefs and fdefs[d] == k:
            continue
        c = [a for a in cur_sets[d] if a in missing and fdefs[a] == k and simple(a) == simple(d)]
        if len(c) == 1 and c[0] not in taken:
            ren[d] = c[0]
            taken.add(c[0])
    # rule 3
    for d, k in defs.items():
        if d in ren or (d in fdefs and fdefs[d] == k):
            continue
        c = [f for f in missing if f not in taken and fdefs[f] == k and simple(f) == simple(d) and (fz_sets[f] - {f}) & (cur_sets[d] - {d})]
        if len(c) == 1:
            ren[d] = c[0]
            taken.add(c[0])
    # rule 4
    for d, k in defs.items():
        if d in ren or (d in fdefs and fdefs[d] == k) or k == "Mod":
            continue
        same_cur = [x for x in defs if simple(x) == simple(d) and defs[x] == k]
        c = [f for f in missing if f not in taken and fdefs[f] == k and simple(f) == simple(d)]
        same_fz = [f for f in fdefs if simple(f) == simple(d) and fdefs[f] == k]
        if len(same_cur) == 1 and len(c) == 1 and len(same_fz) == 1:
            ren[d] = c[0]
            taken.add(c[0])
    # modules: a module that is new (or renamed) maps to the frozen module most of its mapped items came from,
    # provided that frozen module no longer exists under its own name
    mods = [m for m, k in defs.items() if k == "Mod" and m not in fdefs and m not in ren]
    for m in sorted(mods, key=len):
        votes = {}
        for d, f in ren.items():
            if d.startswith(m + "::") and "::" not in d[len(m) + 2:]:
                pm = "::".join(f.split("::")[:-1])
                votes[pm] = votes.get(pm, 0) + 1
        if len(votes) == 1:
            pm = next(iter(votes))
            if pm and fdefs.get(pm) == "Mod" and pm not in defs and pm not in taken:
                ren[m] = pm
                taken.add(pm)
    return {d: f for d, f in ren.items() if d != f}


def rewrite(text, ren):
    """rewrite whole-path occurrences of renamed items in the fact text"""
    if not ren:
        return text
    items = sorted(ren.items(), key=lambda kv: -len(kv[0]))
    # two passes through placeholders so that chains (a -> b, b -> c) cannot cascade
    marks = {}
    for i, (d, f) in enumerate(items):
        mk = "\x00R%d\x00" % i
        marks[mk] = f
        # an item path: not preceded by a path character; followed by a non-identifier character.  A module prefix is
        # the same with `::` following, which the same pattern covers.
        text = re.sub(r"(?<![\w:])" + re.escape(d) + r"(?![\w])", mk, text)
    for mk, f in marks.items():
        text = text.replace(mk, f)
    return text
