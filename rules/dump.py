"""Debug helper: print analysed paths of bodies matching a pattern."""
import sys
sys.path.insert(0, __file__.rsplit("/", 1)[0])
import facts, terms
from terms import show

def dump(cfg, pat, inline=False, crate="bio"):
    f = facts.load(cfg)
    c = f.bio if crate == "bio" else f.derive
    eng = terms.Engine([c])
    class P(terms.Policy):
        def inline(self, callee, body, depth):
            return inline
    for b in c.bodies:
        if pat in b["path"]:
            print("=====", b["path"], b["span"])
            try:
                outs = terms.analyse(eng, b, [], P())
            except terms.Budget as e:
                print("BUDGET", e); continue
            for o in outs:
                print("  --", o.end, show(o.ret) if o.ret is not None else o.panic, " loops", o.loops)
                for g in o.guards:
                    print("       if", show(g[0]), g[1])
                for c2 in o.calls:
                    if c2.inlined == "model": continue
                    print("       call", c2.key, [show(a) for a in c2.args])
                for lv, v in o.stores:
                    print("       store", show(lv), ":=", show(v))

if __name__ == "__main__":
    cfg = sys.argv[1]
    inline = "--inline" in sys.argv
    crate = "derive" if "--derive" in sys.argv else "bio"
    for p in sys.argv[2:]:
        if not p.startswith("--"):
            dump(cfg, p, inline, crate)
