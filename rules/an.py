"""Anchored analysis helpers shared by the property modules."""
import os
import re

import nf
import terms
from terms import show, I


class SeqPolicy(terms.Policy):
    """Inline crate-private helpers (reached by call graph, never by name); keep public
    items and trait-impl methods as atoms (they are anchors with their own rows).
    Option/Result/bool combinators on symbolic values are presented as the `match` they abbreviate."""
    fork_std = True

    def inline(self, callee, body, depth):
        if body["kind"] == "Closure":
            return False
        imp = body.get("impl") or {}
        if imp.get("trait") or imp.get("trait_default"):
            # methods of a crate-private trait that the pinned tree does not have (an extension trait introduced to share a loop)
            # are helpers like any other; every trait of the pinned tree keeps its rows
            return not body["vis"].startswith("Public") and _fresh_trait(imp.get("trait") or imp.get("trait_default"))
        return not body["vis"].startswith("Public")


def _fresh_trait(path):
    import canon
    fz = canon.frozen()
    known = set()
    for crate, per in fz.items():
        if isinstance(per, dict):
            for key, tab in per.items():
                known.update(k for k, v in (tab.get("defs") or {}).items() if v == "Trait")
    return bool(known) and path not in known and not path.startswith("std::") and not path.startswith("core::")


class ForkPolicy(SeqPolicy):
    """SeqPolicy + std Option/Result/bool combinators on symbolic values presented as the `match` they abbreviate"""
    fork_std = True


class InlineExcept(SeqPolicy):
    """SeqPolicy, except that the named functions stay atoms (they are anchors of the rule using this policy)"""

    def __init__(self, *names):
        self.names = names

    def inline(self, callee, body, depth):
        if body["path"] in self.names or body["path"].split("::")[-1] in self.names:
            return False
        return SeqPolicy.inline(self, callee, body, depth)


class InlineAlso(SeqPolicy):
    """SeqPolicy, and the named public functions as well: accessors whose own rows are imported by the rule using this policy
    (`get`, `nth`, `len`), so that `self.slice.get(i)?` and the explicit bounds test followed by the decode are one form"""

    def __init__(self, *paths):
        self.paths = paths

    def inline(self, callee, body, depth):
        if body["path"] in self.paths:
            return True
        return SeqPolicy.inline(self, callee, body, depth)


class InlineAll(terms.Policy):
    def inline(self, callee, body, depth):
        return True


class NoInline(terms.Policy):
    pass


_AX = None


def _axioms(d):
    """facts about the atoms that hold in every well-formed instantiation (each with the reason it may be assumed)"""
    global _AX
    if _AX is None:
        Kc, B = ("cg", "K"), ("BITS",)
        one = {(): -1}
        _AX = [
            (nf.pkey({(Kc,): 1, (): -1}), "Ge"),      # K >= 1: Kmer::_ASSERT_K_NONZERO (compile-time assertion in the k-mer type)
            (nf.pkey({(B,): 1, (): -1}), "Ge"),       # BITS >= 1: every codec has at least one symbol bit (C05/C17 width rows)
        ]
        # K * BITS <= S::BITS: Kmer::_ASSERT_K (compile-time assertion), for the generic storage and the three concrete ones
        kb = (B, Kc) if repr(B) < repr(Kc) else (Kc, B)
        for sb in (("ac", "<S as kmer::sealed::KmerStorage>::BITS", ("S",)),):
            for atom in (sb, ("cast", "IntToInt", sb, "u32", "usize")):
                _AX.append((nf.pkey({(atom,): 1, kb: -1}), "Ge"))
        for w in (64, 128):
            _AX.append((nf.pkey({(): w, kb: -1}), "Ge"))
    ax = list(_AX)
    # 1 << m >= 1
    for m in d:
        for a in m:
            if isinstance(a, tuple) and a[0] == "bin" and a[1] == "Shl" and a[2][:2] == ("int", 1):
                ax.append((nf.pkey({(a,): 1, (): -1}), "Ge"))
    return ax


UNDERFLOWS = []
ASSERTS = []
ASSERT_FILE = os.path.join(os.path.dirname(os.path.dirname(os.path.abspath(__file__))), "oracle", "asserts.json")


def _tup(x):
    return tuple(_tup(y) for y in x) if isinstance(x, list) else x


def frozen_asserts():
    import json
    try:
        with open(ASSERT_FILE) as fh:
            d = json.load(fh)
    except OSError:
        return None
    return {fn: [(_tup(k), op) for k, op in v] for fn, v in d.items()}


def assert_accepted(fz, fn, k, op):
    """an asserted precondition is accepted if it is frozen for this function, or follows from a frozen one (it is weaker)"""
    have = fz.get(fn)
    if have is None:
        # a function without an accepted precondition: a new assertion there may be a tautology (`debug_assert!` of an
        # invariant) or a new precondition, which this rule cannot tell apart - not judged (DESIGN.md section 6)
        return True
    if (k, op) in have:
        return True
    d = dict(k)
    if op == "Ge":
        return nf.entails(have, d)
    if op == "Lt":
        return nf.entails(have, nf.padd({m: -c for m, c in d.items()}, {(): 1}, -1))
    return False


class NPath:
    def __init__(self, p, N):
        self.raw = p
        self.end = p.end
        self.panic = p.panic
        self.ret = N(p.ret) if p.ret is not None else None
        self.guards = []
        self.feasible = True
        for g in p.guards:
            x = nf.guard_nf(N, g)
            if x[0] == "cmp" and nf.const_truth(x[1], x[2]) is not None:
                # constant comparison
                if not nf.const_truth(x[1], x[2]):
                    self.feasible = False
                continue
            if x[0] == "cmp" and ("cmp", x[1], nf.NEG[x[2]]) in self.guards:
                self.feasible = False       # p and not p on one path
            if x not in self.guards:
                self.guards.append(x)
        self.calls = []
        for c in p.calls:
            if c.inlined == "model":
                continue
            self.calls.append((c.key, tuple(N(a) for a in c.args), N(c.result) if c.result is not None else None, c))
        self.stores = [(N(lv), nf.canon(N(v)) if _intlike(N(v)) else N(v)) for lv, v in p.stores]
        self.loops = p.loops
        self.loop_header = getattr(p, "loop_header", None)
        # unsigned subtractions whose operands are not ordered by the conditions of this path (x - y with x >= y not entailed):
        # the subtraction panics under overflow checks and wraps without them
        self.underflow = []
        if self.end != "panic":
            gs = [(g[1], g[2]) for g in self.guards if g[0] == "cmp"]
            for g in self.guards:
                # `match n { 0 => .., n => .. }` on an integer: the arms are facts about n as well
                if g[0] == "sw" and not (isinstance(g[1], tuple) and g[1][0] == "discr"):
                    try:
                        base = nf.poly(g[1])
                    except Exception:
                        continue
                    if g[2] == "==" and isinstance(g[3], int) and not isinstance(g[3], bool):
                        gs.append((nf.pkey(nf.padd(base, {(): g[3]}, -1)), "Eq"))
                    elif g[2] == "notin":
                        for v in g[3]:
                            if isinstance(v, int) and not isinstance(v, bool):
                                gs.append((nf.pkey(nf.padd(base, {(): v}, -1)), "Ne"))
                elif g[0] == "bool" and isinstance(g[1], tuple) and g[1][0] == "isempty":
                    # is_empty() is len() == 0 (row S-len of C03)
                    x0 = g[1][1]
                    x0 = x0[1] if isinstance(x0, tuple) and x0[0] == "seqview" else x0
                    gs.append((nf.pkey({(("L", x0),): 1}), "Eq" if g[2] else "Ne"))
            for x, y, ty, line in getattr(p, "subs", []):
                try:
                    d = nf.padd(nf.poly(N(x)), nf.poly(N(y)), -1)
                except Exception:
                    continue
                if not nf.entails(gs, d, _axioms(d)):
                    self.underflow.append((show(N(x))[:80] + " - " + show(N(y))[:80], line))

    def cmps(self):
        return [(g[1], g[2]) for g in self.guards if g[0] == "cmp"]

    def others(self):
        return [g for g in self.guards if g[0] != "cmp"]

    def describe(self):
        gs = []
        for g in self.guards:
            if g[0] == "cmp":
                gs.append("%s %s 0" % (nf.pshow(g[1]), g[2]))
            elif g[0] == "bool":
                gs.append("%s is %s" % (show(g[1]), g[2]))
            else:
                gs.append("%s %s %s" % (show(g[1]), g[2], g[3]))
        return "%s %s if [%s]" % (self.end, show(self.ret) if self.ret is not None else self.panic, "; ".join(gs))


def _intlike(t):
    return isinstance(t, tuple) and t[0] in ("bin", "int", "P", "F", "L", "BITS", "cg", "bitlen")


def analyse(cfg, body, policy=None, args=(), eng=None):
    eng = eng or cfg.eng
    nf.Norm.eng = eng
    an = terms.Analysis(eng, policy or SeqPolicy())
    raw = an.run(body, list(args))
    out = [NPath(p, nf.Norm(env=getattr(p, "env", None), envs=getattr(p, "envs", None))) for p in raw]
    for p in out:
        p.body = body["path"]
        p.body_span = body.get("span")
        if p.feasible:
            for desc, line in p.underflow:
                UNDERFLOWS.append((eng is not None and eng is not cfg.eng and "derive" or "", body["path"], desc, line, body.get("span")))
    return [p for p in out if p.feasible], nf.Norm()


def strip_assert_guards(paths):
    """Remove from returning paths the guards whose negation leads straight to a panic
    (assert!/debug_assert! idiom): they do not take part in Option/Result outcomes."""
    ag = set()
    for p in paths:
        if p.end == "panic" and p.guards:
            g = p.guards[-1]
            if g[0] == "cmp":
                ag.add((g[1], nf.NEG[g[2]]))
                # also the flipped-sign presentation
    res = {}
    for p in paths:
        if p.end == "panic":
            continue
        res[id(p)] = [g for g in p.guards if not (g[0] == "cmp" and (g[1], g[2]) in ag)]
    # the stripped conditions are preconditions whose violation panics: they are compared with the frozen table of accepted
    # preconditions (oracle/asserts.json) by bin/check - a stricter or new one changes which inputs panic
    body = next((getattr(p, "body", None) for p in paths if getattr(p, "body", None)), None)
    span = next((getattr(p, "body_span", None) for p in paths if getattr(p, "body", None)), None)
    if body:
        for k, op in ag:
            ASSERTS.append((body, k, op, span))
    return res, ag


# ----- constructors for expected normal forms -----
def P(i):
    return ("P", i)


def F(base, name):
    return ("F", base, name)


def L(x):
    return ("L", x)


BITS = ("BITS",)
K = ("cg", "K")
N_ = ("cg", "N")


def add(a, b):
    return ("bin", "Add", a, b)


def sub(a, b):
    return ("bin", "Sub", a, b)


def mul(a, b):
    return ("bin", "Mul", a, b)


def c(n):
    return I(n, "usize")


def cmp(a, op, b):
    return nf.mk_cmp(a, op, b)


def canon(t):
    return nf.canon(t)


def find_body(crate, pattern, unique=True):
    rx = re.compile(pattern)
    bs = [b for b in crate.bodies if rx.search(b["path"])]
    return bs


def is_decode(t, nth=True):
    """<A as Codec>::unsafe_from_bits(<&SeqSlice<A> as Into<u8>>::into(X)) -> X; or SeqSlice::nth(s, i), which is that by its own
    row (C03 S-nth, judged with nth=False)"""
    if isinstance(t, tuple) and t[0] == "call" and t[1] == "<A as codec::Codec>::unsafe_from_bits":
        a = t[2][0]
        if isinstance(a, tuple) and a[0] == "call" and a[1] == "CONV<&seq::slice::SeqSlice<A> -> u8>":
            return a[2][0]
    if nth and isinstance(t, tuple) and t[0] == "call" and t[1] == "seq::slice::SeqSlice::<A>::nth" and len(t[2]) == 2:
        return ("sym1", t[2][0], nf.canon(t[2][1]))
    if isinstance(t, tuple) and t[0] == "call" and t[1] == "<A as codec::Codec>::unsafe_from_bits":
        a = t[2][0]
        # the symbol's bit window loaded directly: load_le::<u8>(bits(X)[BITS*i .. BITS*i + BITS]) is what `Into<u8>` of the
        # one-symbol slice X[i] does (C03 S-byte)
        if isinstance(a, tuple) and a[0] == "call" and re.search(r"BitField>::load_le::<u8>$", a[1]) and len(a[2]) == 1:
            w = a[2][0]
            if isinstance(w, tuple) and w[0] == "bslice" and isinstance(w[1], tuple) and w[1][0] == "bits" and w[3] is not None:
                lo, hi = nf.poly(w[2]), nf.poly(w[3])
                width = nf.padd(hi, lo, -1)
                if nf.pkey({k: v for k, v in width.items() if v}) == nf.pkey({(BITS,): 1}) and all(BITS in m for m in lo if lo[m]):
                    idx = {}
                    for m, cf in lo.items():
                        if cf:
                            mm = list(m)
                            mm.remove(BITS)
                            idx[tuple(mm)] = cf
                    return ("sym1", w[1][1], ("poly", nf.pkey(idx)))
    return None


def opt_kind(t):
    if isinstance(t, tuple) and t[0] == "agg" and t[1] == "std::option::Option":
        return t[3], (t[4][0] if t[4] else None)
    if isinstance(t, tuple) and t[0] == "agg" and t[1] == "std::result::Result":
        return t[3], (t[4][0] if t[4] else None)
    return None, None


def gset(guards):
    return set((g[1], g[2]) for g in guards if g[0] == "cmp")


def gset_aligned(guards, bits):
    """gset with bit-length comparisons restated over symbol lengths (nf.align_cmp): for rows about aligned sequences of a concrete
    codec, `a.bs.len() != b.bs.len()` and `a.len() != b.len()` are the same guard"""
    src = guards if isinstance(guards, (set, frozenset)) else gset(guards)
    return set(nf.align_cmp(k, op, bits) for k, op in src)


def gshow(gs):
    return "{" + "; ".join("%s %s 0" % (nf.pshow(k), op) for k, op in sorted(gs, key=repr)) + "}"


def _strip_lt(s):
    return re.sub(r"'[a-z_]+,? ?", "", s or "")


def has_self_receiver(b):
    """an associated function callable with method syntax: its first parameter is Self, &Self or &mut Self"""
    imp = b.get("impl") or {}
    st = _strip_lt(imp.get("self_ty") or "")
    if not st or b.get("arg_count", 0) < 1 or len(b["locals"]) < 2:
        return False
    t = _strip_lt(b["locals"][1]["ty"])
    t = re.sub(r"^&(mut )?", "", t)
    return t == st or t == "Self"


def methods(crate, name, trait=None, self_re=None, targ_re=None, inherent=False):
    """Find method bodies by resolved impl metadata (never by position or text)."""
    out = []
    for b in crate.bodies:
        if b["kind"] != "AssocFn":
            continue
        if not b["path"].endswith("::" + name):
            continue
        imp = b.get("impl") or {}
        if trait is not None and imp.get("trait") != trait:
            continue
        if inherent and imp.get("trait"):
            continue
        st = _strip_lt(imp.get("self_ty"))
        if self_re is not None and not re.search(self_re, st):
            continue
        if targ_re is not None:
            ta = imp.get("trait_args") or []
            if not any(re.search(targ_re, _strip_lt(x)) for x in ta[1:]):
                continue
        out.append(b)
    return out


def one(chk, rule, crate, what, **kw):
    """Exactly one body must match; otherwise fail closed."""
    bs = methods(crate, **kw)
    if len(bs) != 1:
        chk.cannot(rule, what, "anchor not found uniquely (%d matches): the item this rule instance is attached to "
                               "is missing or duplicated" % len(bs))
        return None
    return bs[0]


def peel_posts(t):
    """post#k(...post#j(base)) -> (base, [j..k])"""
    ids = []
    while isinstance(t, tuple) and t[0] == "post":
        ids.append(t[1])
        t = t[2]
    return t, list(reversed(ids))


def calls_on(npath, obj):
    """calls (key, args, result, ev) whose first argument denotes the object obj, in order"""
    return [x for x in npath.calls if x[1] and x[1][0] == obj]


def short(key):
    """last path segment of a callee key without generic arguments"""
    k = key.replace("->", "\u2192")
    while k.endswith(">"):
        depth = 0
        i = len(k) - 1
        while i >= 0:
            if k[i] == ">":
                depth += 1
            elif k[i] == "<":
                depth -= 1
                if depth == 0:
                    break
            i -= 1
        if i >= 2 and k[i - 2:i] == "::":
            k = k[:i - 2]
        else:
            break
    # last segment outside any angle bracket
    depth = 0
    for j in range(len(k) - 1, 0, -1):
        if k[j] == ">":
            depth += 1
        elif k[j] == "<":
            depth -= 1
        elif depth == 0 and k[j - 1:j + 1] == "::":
            return k[j + 1:]
    return k


def is_call(t, key, args=None):
    """t is a call term to `key` (exact string or compiled regex) with the given normalised args"""
    if not (isinstance(t, tuple) and t and t[0] == "call"):
        return False
    if hasattr(key, "search"):
        if not key.search(t[1]):
            return False
    elif t[1] != key:
        return False
    return args is None or tuple(t[2]) == tuple(args)


def no_overrides(chk, crate, rule, what, trait, self_re, required, tolerated=()):
    """An impl of `trait` for the anchored type must define exactly the required methods: a provided (default)
    method that is overridden has no row, and the callers that std builds on it (nth -> skip/step_by, ne -> !=,
    clone_from, ...) would silently change meaning.  Fail closed on any override outside `tolerated`."""
    found = {}
    for b in crate.bodies:
        if b["kind"] != "AssocFn":
            continue
        imp = b.get("impl") or {}
        if imp.get("trait") != trait:
            continue
        if not re.search(self_re, _strip_lt(imp.get("self_ty"))):
            continue
        found.setdefault(imp.get("id"), []).append(b["path"].split("::")[-1])
    n = 0
    for iid, ms in found.items():
        extra = [m for m in ms if m not in required and m not in tolerated]
        chk.ob(rule, "%s (%s)" % (what, trait.split("::")[-1]), not extra,
               "overrides provided method(s) %s of %s: they have no row in the table and everything std derives from them changes with them" % (extra, trait),
               kind="unmodelled-override", sample={"impl": what, "methods": ms})
        n += 1
    return n


def norm_of(p):
    """normaliser resolving the locals of this path (its own frame and the frames of inlined callees)"""
    raw = getattr(p, "raw", p)
    return nf.Norm(env=getattr(raw, "env", None), envs=getattr(raw, "envs", None))


# ----- what an error prints: variant -> (literal text, displayed payloads) -----
TEXT_FILE = os.path.join(os.path.dirname(os.path.dirname(os.path.abspath(__file__))), "oracle", "error_texts.json")


def display_table(cfg, body, adt_path):
    """For a `Display::fmt` of an enum: {variant name: [text with {} placeholders, [displayed values]]}, or None with a reason.
    The formatter's output is read as the sequence of writes on `f` along the path: write!(f, ..) / f.write_fmt(format_args!(..)),
    f.write_str(".."), f.write_char(c), Display::fmt(x, f).  A path that stops early on a write error (`?`) is a prefix of the
    variant's full sequence."""
    adt = cfg.bio.adts.get(adt_path)
    if not adt:
        return None, "enum %s not found" % adt_path
    paths, _ = analyse(cfg, body)
    seqs = {}
    for p in paths:
        if p.end != "return":
            continue
        vidx = None
        for g in p.guards:
            if g[0] == "sw" and g[1] == ("discr", P(1)) and g[2] == "==":
                vidx = g[3]
        if vidx is None or vidx >= len(adt["variants"]):
            return None, "a path is not selected by the variant of self: " + p.describe()[:120]
        vname = adt["variants"][vidx]["name"]
        ev = []

        def val(x):
            return re.sub(r"\(arg1 as %s\)" % re.escape(vname), "$V", show(x))
        for key, args, res, e in p.calls:
            if not args or args[0] != P(2) and not (len(args) == 2 and args[1] == P(2)):
                continue
            if re.match(r"^std::fmt::Formatter::<'_>::write_str$", key) and isinstance(args[1], tuple) and args[1][0] == "str":
                ev.append(("text", args[1][1]))
            elif re.search(r"std::fmt::Write>::write_char$|Formatter::<'_>::write_char$", key):
                ev.append(("show", val(args[1])))
            elif re.search(r" as std::fmt::Display>::fmt$", key) and args[1] == P(2):
                ev.append(("show", val(args[0])))
            elif re.match(r"^std::fmt::Formatter::<'_>::write_fmt$", key):
                a = args[1]
                if is_call(a, re.compile(r"^std::fmt::Arguments::<'_>::from_str$")) and a[2][0][0] == "str":
                    ev.append(("text", a[2][0][1]))
                elif is_call(a, re.compile(r"^std::fmt::Arguments::<'_>::new::<")) and a[2][0][0] == "mem" and a[2][1][0] == "array":
                    # the template interleaves length-prefixed literal pieces with placeholder opcodes (>= 0x80)
                    bs, i, argv = list(a[2][0][1]), 0, list(a[2][1][1])
                    while i < len(bs):
                        b = bs[i]
                        if b == 0:
                            break
                        if b < 0x80:
                            ev.append(("text", bytes(bs[i + 1:i + 1 + b]).decode("utf-8", "replace")))
                            i += 1 + b
                        else:
                            x = argv.pop(0) if argv else None
                            if x is not None and is_call(x, re.compile(r"::new_display::<")) and len(x[2]) == 1 and b == 0xC0:
                                ev.append(("show", val(x[2][0])))
                            else:
                                ev.append(("fmt", "%02x %s" % (b, val(x) if x is not None else "?")))
                            i += 1
                else:
                    return None, "variant %s: unrecognised format arguments %s" % (vname, show(a)[:100])
            else:
                return None, "variant %s writes through %s" % (vname, key[-60:])
        seqs.setdefault(vname, []).append(ev)
    out = {}
    for vname, lst in seqs.items():
        full = max(lst, key=len)
        if any(x != full[:len(x)] for x in lst):
            return None, "variant %s is written in two different ways" % vname
        text, shown = "", []
        for kind, x in full:
            if kind == "text":
                text += x
            else:
                text += "{}"
                shown.append(x if kind == "show" else "fmt " + x)
        out[vname] = [text, shown]
    return out, ""


def frozen_texts():
    import json
    try:
        with open(TEXT_FILE) as fh:
            return json.load(fh)
    except OSError:
        return {}
