"""Normal forms for iterator pipelines and closures (parsers, display, conversions)."""
import re

import an
import nf
from an import P, F, short
from terms import show

TRY_ASCII = "<A as codec::Codec>::try_from_ascii"


def subst(t, mapping):
    if not isinstance(t, tuple):
        return t
    if t in mapping:
        return mapping[t]
    return tuple(subst(x, mapping) if isinstance(x, tuple) else x for x in t)


def closure_ret(cfg, clo):
    """Analyse a closure value term; returns (ret term with captures substituted and the argument as ('ARG',)) or None."""
    if not (isinstance(clo, tuple) and clo[0] == "closure"):
        return None
    cb = [x for x in cfg.bio.bodies if x["path"] == clo[1]]
    if len(cb) != 1:
        return None
    paths, _ = an.analyse(cfg, cb[0], policy=an.NoInline())
    r = [p for p in paths if p.end == "return"]
    if len(r) != 1 or r[0].guards or any(p.end not in ("return", "panic") for p in paths):
        return None
    m = {P(2): ("ARG",)}
    for i, cap in enumerate(clo[3]):
        m[F(P(1), i)] = cap
    return subst(r[0].ret, m)


def is_strict_closure(cfg, clo):
    """b -> A::try_from_ascii(b).ok_or(UnrecognisedBase(b)) : the error payload is the closure's own parameter"""
    r = closure_ret(cfg, clo)
    if r is None:
        return False, "closure body not a single expression"
    ok = an.is_call(r, re.compile(r"^std::option::Option::<A>::ok_or::<error::ParseBioError>$")) and \
        an.is_call(r[2][0], TRY_ASCII, (("ARG",),)) and \
        r[2][1] == ("agg", "error::ParseBioError", r[2][1][2] if isinstance(r[2][1], tuple) and len(r[2][1]) > 2 else 0, "UnrecognisedBase", (("ARG",),))
    return bool(ok), show(r)


def is_accept_closure(cfg, clo):
    """b -> A::try_from_ascii(b).is_some()"""
    r = closure_ret(cfg, clo)
    if r is None:
        return False, "?"
    ok = an.is_call(r, re.compile(r"^std::option::Option::<A>::is_some$")) and an.is_call(r[2][0], TRY_ASCII, (("ARG",),))
    return bool(ok), show(r)


BYTES_SRC = re.compile(r"^<std::vec::Vec<u8> as std::iter::IntoIterator>::into_iter$|^core::slice::<impl \[u8\]>::iter$")
MAP = re.compile(r" as std::iter::Iterator>::map::<")
COLLECT = re.compile(r" as std::iter::Iterator>::collect::<(.*)>$")


def strict_parse_of(cfg, t):
    """t is Collect<Result<Seq<A>,ParseBioError>>(Map(bytes(X), strict closure)); returns X or None, description"""
    m = COLLECT.search(t[1]) if isinstance(t, tuple) and t[0] == "call" else None
    if not m or m.group(1) != "std::result::Result<seq::Seq<A>, error::ParseBioError>":
        return None, "not a collect into Result<Seq<A>, ParseBioError>: " + show(t)[:120]
    mp = t[2][0]
    if not (mp[0] == "call" and MAP.search(mp[1])):
        return None, "collect is not fed by a map: " + show(mp)[:120]
    src, clo = mp[2][0], mp[2][1]
    if not (src[0] == "call" and BYTES_SRC.match(src[1])):
        return None, "map does not run over the input bytes in order: " + show(src)[:120]
    ok, d = is_strict_closure(cfg, clo)
    if not ok:
        return None, "per-byte function is not try_from_ascii(b).ok_or(UnrecognisedBase(b)): " + d[:160]
    return src[2][0], "strict"


SEQ_ITER = re.compile(r"^seq::iterators::<impl std::iter::IntoIterator for &seq::slice::SeqSlice<A>>::into_iter$|^seq::iterators::<impl seq::slice::SeqSlice<A>>::iter$")


def map_collect_of(t, target, fnpath):
    """Collect<target>(Map(Iter(X), fn path)) -> X"""
    m = COLLECT.search(t[1]) if isinstance(t, tuple) and t[0] == "call" else None
    if not m or m.group(1) != target:
        return None
    mp = t[2][0]
    if not (mp[0] == "call" and MAP.search(mp[1])):
        return None
    src, f = mp[2][0], mp[2][1]
    if not (f[0] == "fn" and f[1] == fnpath):
        return None
    if not (src[0] == "call" and SEQ_ITER.match(src[1])):
        return None
    return src[2][0]
