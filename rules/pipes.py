"""Normal forms for iterator pipelines and closures (parsers, display, conversions)."""
import re

import an
import nf
from an import P, F, short
from terms import show

TRY_ASCII = "<A as codec::Codec>::try_from_ascii"


def subst(t, mapping):
    if not isinstance(t, tuple):
        return t
    if t in mapping:
        return mapping[t]
    return tuple(subst(x, mapping) if isinstance(x, tuple) else x for x in t)


def closure_ret(cfg, clo):
    """Analyse a closure value term; returns (ret term with captures substituted and the argument as ('ARG',)) or None."""
    if not (isinstance(clo, tuple) and clo[0] == "closure"):
        return None
    cb = [x for x in cfg.bio.bodies if x["path"] == clo[1]]
    if len(cb) != 1:
        return None
    paths, _ = an.analyse(cfg, cb[0], policy=an.NoInline())
    r = [p for p in paths if p.end == "return"]
    if len(r) != 1 or r[0].guards or any(p.end not in ("return", "panic") for p in paths):
        return None
    m = {P(2): ("ARG",)}
    for i, cap in enumerate(clo[3]):
        m[F(P(1), i)] = cap
    return subst(r[0].ret, m)


def fn_paths(cfg, fv, policy=None):
    """Outcomes of a function value (closure, or function item with a body in the crate) on one argument ('ARG',):
    list of (guards, ret) over its returning paths, or None.  Private helpers are inlined and std Option/Result/bool
    combinators are presented as matches, so the way the function is written does not matter."""
    if not isinstance(fv, tuple):
        return None
    if fv[0] == "closure":
        cb = [x for x in cfg.bio.bodies if x["path"] == fv[1]]
        m = {P(2): ("ARG",), ("deref", P(2)): ("ARG",)}
        for i, cap in enumerate(fv[3]):
            m[F(P(1), i)] = cap
    elif fv[0] == "fn":
        cb = [x for x in cfg.bio.bodies if x["path"] == fv[1]]
        m = {P(1): ("ARG",), ("deref", P(1)): ("ARG",)}
    else:
        return None
    if len(cb) != 1:
        return None
    try:
        paths, _ = an.analyse(cfg, cb[0], policy=policy or an.ForkPolicy())
    except Exception:
        return None
    if any(p.end not in ("return", "panic") for p in paths):
        return None
    out = []
    for p in paths:
        if p.end == "return":
            out.append((tuple(subst(g, m) for g in p.guards), subst(p.ret, m)))
    return out


def _try_ascii_split(fp):
    """fp = fn_paths(..): the two outcomes keyed by try_from_ascii(ARG) being Some / None -> (ret_some, ret_none, T) or None"""
    if fp is None or len(fp) != 2:
        return None
    res = {}
    T = None
    for guards, ret in fp:
        if len(guards) != 1:
            return None
        g = guards[0]
        if not (g[0] == "sw" and isinstance(g[1], tuple) and g[1][0] == "discr" and an.is_call(g[1][1], TRY_ASCII, (("ARG",),)) and g[2] in ("==", "notin")):
            return None
        T = g[1][1]
        if g[2] == "==":
            res[g[3]] = ret
        elif g[3] in ((0,), (1,)):
            res[1 - g[3][0]] = ret
    if set(res) != {0, 1}:
        return None
    return res[1], res[0], T


def is_strict_closure(cfg, clo):
    """b -> A::try_from_ascii(b).ok_or(UnrecognisedBase(b)), however it is written (ok_or, match, helper function):
    Some(x) -> Ok(x), None -> Err(UnrecognisedBase(b)) with the function's own parameter as the payload"""
    sp = _try_ascii_split(fn_paths(cfg, clo))
    if sp is None:
        return False, "not a two-way split on try_from_ascii(byte)"
    rs, rn, T = sp
    pay = F(("downcast", T, 1, "Some"), "0")
    ok = rs == ("agg", "std::result::Result", 0, "Ok", (pay,)) and isinstance(rn, tuple) and rn[0] == "agg" and rn[1] == "std::result::Result" and rn[3] == "Err" and \
        isinstance(rn[4][0], tuple) and rn[4][0][:2] == ("agg", "error::ParseBioError") and rn[4][0][3] == "UnrecognisedBase" and rn[4][0][4] == (("ARG",),)
    return bool(ok), "Some -> %s, None -> %s" % (show(rs)[:80], show(rn)[:80])


def is_accept_closure(cfg, clo):
    """b -> A::try_from_ascii(b).is_some(), however it is written"""
    sp = _try_ascii_split(fn_paths(cfg, clo))
    if sp is None:
        return False, "not a two-way split on try_from_ascii(byte)"
    rs, rn, T = sp
    return rs == ("int", 1, "bool") and rn == ("int", 0, "bool"), "Some -> %s, None -> %s" % (show(rs), show(rn))


BYTES_SRC = re.compile(r"^<std::vec::Vec<u8> as std::iter::IntoIterator>::into_iter$|^core::slice::<impl \[u8\]>::iter$")
MAP = re.compile(r" as std::iter::Iterator>::map::<")
COPIED = re.compile(r" as std::iter::Iterator>::(copied|cloned)::<")
COLLECT = re.compile(r" as std::iter::Iterator>::collect::<(.*)>$")


STRICT_ENTRY = re.compile(r"^<seq::Seq<A> as std::convert::TryFrom<&('\w+ )?\[u8\]>>::try_from$")


def strict_parse_of(cfg, t):
    """t is Collect<Result<Seq<A>,ParseBioError>>(Map(bytes(X), strict closure)); returns X or None, description"""
    if isinstance(t, tuple) and t[0] == "call" and STRICT_ENTRY.match(t[1]) and len(t[2]) == 1:
        # handed to the byte-slice entry point of the strict parser itself (C01 S-parse decides that entry point)
        return t[2][0], "strict (delegated to %s)" % t[1]
    m = COLLECT.search(t[1]) if isinstance(t, tuple) and t[0] == "call" else None
    if not m or m.group(1) != "std::result::Result<seq::Seq<A>, error::ParseBioError>":
        return None, "not a collect into Result<Seq<A>, ParseBioError>: " + show(t)[:120]
    mp = t[2][0]
    if not (mp[0] == "call" and MAP.search(mp[1])):
        return None, "collect is not fed by a map: " + show(mp)[:120]
    src, clo = mp[2][0], mp[2][1]
    if src[0] == "call" and COPIED.search(src[1]):
        src = src[2][0]
    if not (src[0] == "call" and BYTES_SRC.match(src[1])):
        return None, "map does not run over the input bytes in order: " + show(src)[:120]
    ok, d = is_strict_closure(cfg, clo)
    if not ok:
        return None, "per-byte function is not try_from_ascii(b).ok_or(UnrecognisedBase(b)): " + d[:160]
    return src[2][0], "strict"


SEQ_ITER = re.compile(r"^<&seq::slice::SeqSlice<A> as std::iter::IntoIterator>::into_iter$|^seq::slice::SeqSlice::<A>::iter$")


def map_collect_of(t, target, fnpath):
    """Collect<target>(Map(Iter(X), fn path)) -> X"""
    m = COLLECT.search(t[1]) if isinstance(t, tuple) and t[0] == "call" else None
    if not m or m.group(1) != target:
        return None
    mp = t[2][0]
    if not (mp[0] == "call" and MAP.search(mp[1])):
        return None
    src, f = mp[2][0], mp[2][1]
    if not (f[0] == "fn" and f[1] == fnpath):
        return None
    if not (src[0] == "call" and SEQ_ITER.match(src[1])):
        return None
    return src[2][0]
