"""Pretty printer for extracted MIR (used by --explain and while developing rules)."""
import sys


def P(p):
    s = "_%d" % p["l"]
    for e in p["proj"]:
        k = e["k"]
        if k == "deref":
            s = "(*%s)" % s
        elif k == "field":
            s = "%s.%s" % (s, e["name"] if e.get("name") is not None else e["i"])
        elif k == "downcast":
            s = "(%s as %s)" % (s, e["name"])
        elif k == "index":
            s = "%s[_%d]" % (s, e["l"])
        else:
            s += "{%s}" % e
    return s


def O(o):
    if o["k"] in ("copy", "move"):
        return o["k"] + " " + P(o["p"])
    if o["k"] == "const":
        if o.get("fn"):
            return "fn " + o["fn"]
        return "const " + o["text"] + ("=" + str(o["val"]) if o.get("val") is not None else "")
    return str(o)


def R(r):
    k = r["k"]
    if k == "use":
        return O(r["op"])
    if k == "binop":
        return "%s(%s, %s)" % (r["op"], O(r["a"]), O(r["b"]))
    if k == "unop":
        return "%s(%s)" % (r["op"], O(r["a"]))
    if k == "cast":
        return "%s as %s (%s)" % (O(r["op"]), r["ty"], r["ck"])
    if k == "ref":
        return "&%s%s" % ("mut " if r["mut"] else "", P(r["p"]))
    if k == "rawptr":
        return "&raw %s" % P(r["p"])
    if k == "discr":
        return "discriminant(%s)" % P(r["p"])
    if k == "aggregate":
        return "%s%s(%s)" % (r.get("adt", r.get("closure", r["ak"])),
                             "::" + r["vname"] if "vname" in r else "",
                             ", ".join(O(o) for o in r["ops"]))
    return str(r)


def body_text(b, cleanup=False):
    out = []
    out.append("fn %s  [%s] args=%d -> %s" % (b["path"], b["span"], b["arg_count"], b["ret_ty"]))
    for i, l in enumerate(b["locals"]):
        out.append("  let _%d: %s%s" % (i, l["ty"], "  // " + l["name"] if l["name"] else ""))
    for i, bl in enumerate(b["blocks"]):
        if bl["cleanup"] and not cleanup:
            continue
        out.append(" bb%d:" % i)
        for s in bl["stmts"]:
            if s["k"] == "assign":
                out.append("    %s = %s" % (P(s["p"]), R(s["rv"])))
            else:
                out.append("    %s" % s)
        t = bl["term"]
        if t["k"] == "call":
            f = t["func"]
            out.append("    %s = %s(%s) -> bb%s   [%s]" % (
                P(t["dest"]), f.get("text") or f.get("indirect"), ", ".join(O(a) for a in t["args"]), t["t"],
                f.get("resolved_text")))
        elif t["k"] == "switch":
            out.append("    switch %s %s else bb%d" % (O(t["op"]), t["targets"], t["otherwise"]))
        elif t["k"] == "assert":
            out.append("    assert(%s == %s) %s -> bb%d" % (O(t["cond"]), t["expected"], t["msgtext"], t["t"]))
        elif t["k"] in ("goto", "drop"):
            out.append("    %s -> bb%d" % (t["k"], t["t"]))
        else:
            out.append("    %s %s" % (t["k"], t.get("text", "")))
    return "\n".join(out)


if __name__ == "__main__":
    sys.path.insert(0, __file__.rsplit("/", 1)[0])
    import facts
    cfg = sys.argv[1]
    f = facts.load(cfg)
    for pat in sys.argv[2:]:
        for c in f.crates.values():
            for b in c.bodies:
                if pat in b["path"]:
                    print(body_text(b))
                    print()
