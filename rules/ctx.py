"""Shared context for a check run: facts, engines, codec tables, declarations, oracles."""
import json
import os

import declparse
import facts
import symtab
import terms

VERIF = os.path.dirname(os.path.dirname(os.path.abspath(__file__)))


def oracle(name):
    with open(os.path.join(VERIF, "oracle", name)) as fh:
        return json.load(fh)


class Cfg:
    def __init__(self, name):
        self.name = name
        self.facts = facts.load(name)
        self.bio = self.facts.bio
        self.derive = self.facts.derive
        self.eng = terms.Engine([self.bio])
        self.deng = terms.Engine([self.derive])
        self._codecs = None
        self.all_features = "translation" in self.facts.features
        self.debug = self.facts.debug_assertions

    @property
    def codecs(self):
        if self._codecs is None:
            self._codecs = symtab.CodecSet(self.facts, self.eng)
        symtab.CodecSet.current = self._codecs
        return self._codecs


class Ctx:
    def __init__(self, tier):
        self.tier = tier
        self.config_names = facts.THOROUGH_CONFIGS if tier == "thorough" else facts.QUICK_CONFIGS
        self._cfgs = {}
        self.build_failures = {}
        self.tree = facts.tree_hash()
        self._decls = None

    def cfg(self, name):
        if name not in self._cfgs:
            self._cfgs[name] = Cfg(name)
        return self._cfgs[name]

    def configs(self, need_all_features=False):
        out = []
        for n in self.config_names:
            if need_all_features and not n.startswith("all"):
                continue
            try:
                out.append(self.cfg(n))
            except facts.BuildFailure as e:
                self.build_failures[n] = e.stderr[-3000:]
        return out

    def bitvec_version(self):
        """version of bitvec pinned by /repo's Cargo.lock (the model rows of appendix A were read from 1.1.1)"""
        import tomllib
        try:
            with open(os.path.join(facts.REPO, "Cargo.lock"), "rb") as fh:
                lock = tomllib.load(fh)
            vs = [p["version"] for p in lock.get("package", []) if p["name"] == "bitvec"]
            return vs[0] if len(vs) == 1 else None
        except Exception:
            return None

    @property
    def decls(self):
        """enum declarations deriving Codec, keyed by ADT path"""
        if self._decls is None:
            self._decls = {}
            root = os.path.join(facts.REPO, "bio-seq", "src")
            for dp, dn, fn in os.walk(root):
                for f in fn:
                    if not f.endswith(".rs"):
                        continue
                    p = os.path.join(dp, f)
                    rel = os.path.relpath(p, root)[:-3]
                    mod = "::".join(x for x in rel.split(os.sep) if x not in ("lib", "mod"))
                    try:
                        src = open(p).read()
                    except OSError:
                        continue
                    for e in declparse.parse_codec_enums(src):
                        e["file"] = os.path.relpath(p, facts.REPO)
                        self._decls[(mod + "::" if mod else "") + e["name"]] = e
        return self._decls
