"""Shared rules for the translation properties C13-C15."""
import re

import an
import nf
from an import P, F, L, c, cmp, canon, gset, gshow, opt_kind, short
from terms import show, walk

NEXT = re.compile(r"as std::iter::Iterator>::next$")


def loop_item(p):
    """the element bound by the `for` loop on this path: (next(..) as Some).0"""
    for key, args, res, ev in p.calls:
        if NEXT.search(key) and res is not None:
            return F(("downcast", res, 1, "Some"), "0"), res
    return None, None


def iter_source(p):
    """X in `for .. in X` : into_iter(X) feeding next()"""
    for key, args, res, ev in p.calls:
        if short(key) == "into_iter":
            return args[0]
    return None


SLICE_ITER = re.compile(r"^core::slice::<impl \[.*\]>::iter$|IntoIterator>::into_iter$|^std::collections::HashMap::<.*>::iter$|^core::array::<impl \[.*\]>::iter$")


def plain_source(cfg, src):
    """The collection a loop runs over, seen through order- and element-preserving wrappers:
    X.iter() / (&X).into_iter(), and .map(|(a, b)| (a, b)) (re-borrowing a pair as a pair of references)."""
    import pipes
    for _ in range(6):
        if isinstance(src, tuple) and src[0] == "cast" and src[1] == "PointerCoercion" and len(src) > 4 and \
                re.match(r"^&\[(.*); [^;]+\]$", src[3]) and src[4] == "&[" + re.match(r"^&\[(.*); [^;]+\]$", src[3]).group(1) + "]":
            src = src[2]      # &[T; N] -> &[T]
            continue
        if src is None or not (isinstance(src, tuple) and src[0] == "call"):
            return src
        if pipes.MAP.search(src[1]) and len(src[2]) == 2:
            fp = pipes.fn_paths(cfg, src[2][1])
            arg = ("ARG",)
            if fp is not None and len(fp) == 1 and not fp[0][0] and fp[0][1] in (("tuple", (F(arg, "0"), F(arg, "1"))), ("tuple", (F(arg, 0), F(arg, 1)))):
                src = src[2][0]
                continue
            return src
        if SLICE_ITER.search(src[1]) and len(src[2]) == 1:
            src = src[2][0]
            continue
        return src
    return src


def inverse_shape(chk, cfg, b, rule, what, want_source):
    """Per-key state machine  absent -> Some(codon.clone()),  present -> None  over a loop
    on the forward table; returns True if established.  Accepted idiom: contains_key / insert
    (today's); anything else is reported as cannot-establish (fail closed)."""
    paths, _ = an.analyse(cfg, b)
    conts = [p for p in paths if p.end == "continue"]
    rets = [p for p in paths if p.end == "return"]
    bad = [p for p in paths if p.end not in ("continue", "return")]
    if bad or len(conts) != 2 or len(rets) != 1:
        chk.cannot(rule, what, "expected a single loop with two iteration paths (absent/present) and one exit; found %d iteration paths, %d exits%s" % (
            len(conts), len(rets), "; " + bad[0].describe()[:160] if bad else ""), b["span"])
        return None
    src = plain_source(cfg, iter_source(rets[0]))
    chk.ob(rule + "/source", what, src is not None and want_source(src), "the inverse is built from %s, expected the forward table" % (show(src) if src else "?"), b["span"])
    ok = True
    seen = {}
    roles = {}
    for p in conts:
        item, nxt = loop_item(p)
        if item is None:
            chk.cannot(rule, what, "loop element not recognised", b["span"])
            return None
        # the per-key state test: `contains_key(k)` followed by `insert(k, v)`, or one `entry(k)` lookup matched on Occupied / Vacant
        bg = [g for g in p.guards if g[0] == "bool" and an.is_call(g[1], re.compile(r"HashMap::<.*>::contains_key::<"))]
        eg = [g for g in p.guards if g[0] == "sw" and isinstance(g[1], tuple) and g[1][0] == "discr" and an.is_call(g[1][1], re.compile(r"HashMap::<.*>::entry$"))]
        ins = [x for x in p.calls if short(x[0]) == "insert"]
        if len(bg) == 1 and not eg:
            test = bg[0][1]
            present = bg[0][2]
            m, key = test[2][0], test[2][1]
            if len(ins) != 1:
                chk.fail(rule, what, "mismatch", "iteration path with contains_key=%s performs %d inserts" % (present, len(ins)), b["span"])
                ok = False
                continue
            im, ik, iv = ins[0][1][0], ins[0][1][1], ins[0][1][2]
        elif len(eg) == 1 and not bg:
            E = eg[0][1][1]
            occupied = (eg[0][2] == "==" and eg[0][3] == 0) or (eg[0][2] == "notin" and 0 not in eg[0][3])
            present = bool(occupied)
            m, key = E[2][0], E[2][1]
            want_fn = r"hash_map::OccupiedEntry<.*>::insert$|OccupiedEntry::<.*>::insert$" if present else r"hash_map::VacantEntry<.*>::insert$|VacantEntry::<.*>::insert$"
            if len(ins) != 1 or not re.search(want_fn, ins[0][0]) or len(ins[0][1]) != 2:
                chk.fail(rule, what, "mismatch", "iteration path on an %s entry performs %s" % ("occupied" if present else "vacant", [x[0][-60:] for x in ins]), b["span"])
                ok = False
                continue
            ent = ins[0][1][0]
            while isinstance(ent, tuple) and ent[0] == "deref":
                ent = ent[1]
            if isinstance(ent, tuple) and ent[0] == "local" and len(ent) in (2, 3):
                # `mut seen` bound by the match arm and borrowed mutably for the call: its value before the call (in the frame of
                # the function itself, or of the private helper the loop was moved into)
                env0 = (getattr(p.raw, "env", None) or {}) if len(ent) == 2 else ((getattr(p.raw, "envs", None) or {}).get(ent[2]) or {})
                v0 = env0.get(ent[1])
                if v0 is not None:
                    ent = an.norm_of(p)(an.peel_posts(v0)[0])
            if not (isinstance(ent, tuple) and ent[0] == "F" and isinstance(ent[1], tuple) and ent[1][0] == "downcast" and ent[1][1] == E):
                chk.fail(rule, what, "mismatch", "the insert does not go through the entry that was looked up: " + show(ent)[:100], b["span"])
                ok = False
                continue
            im, ik, iv = m, key, ins[0][1][1]
        else:
            chk.cannot(rule, what, "iteration path is not keyed by a single contains_key test or entry lookup: " + p.describe()[:200], b["span"])
            return None
        # roles by use (the two components of a row have different types, so the key component is the amino acid and the cloned
        # one the codon, whether the row is a tuple or a two-field struct): both must be distinct components of this element
        def comp_of(t):
            while isinstance(t, tuple) and t[0] == "deref":
                t = t[1]
            return t[2] if isinstance(t, tuple) and t[0] == "F" and t[1] == item else None
        amino = key
        same_key = comp_of(key) is not None and ik == key
        if roles.setdefault("amino", comp_of(key)) != comp_of(key):
            same_key = False
        same_map = m[0] == "loopvar" and im[0] in ("local", "loopvar") and (im[1] == m[2] if im[0] == "local" else im == m)
        if eg:
            same_map = m[0] in ("loopvar", "local")
        if present:
            val_ok = opt_kind(iv)[0] == "None"
            want = "None"
        else:
            k, v = opt_kind(iv)
            val_ok = k == "Some" and an.is_call(v, re.compile(r"as std::clone::Clone>::clone$")) and len(v[2]) == 1 and \
                comp_of(v[2][0]) is not None and comp_of(v[2][0]) != comp_of(key)
            want = "Some(codon.clone())"
        seen[present] = True
        chk.ob(rule, "%s [%s]" % (what, "present" if present else "absent"), same_key and same_map and val_ok,
               "on a key that is %s the map receives insert(%s, %s); expected insert(amino, %s) keyed by the tested amino" % (
                   "present" if present else "absent", show(ik), show(iv)[:80], want), b["span"],
               sample={"state": "present" if present else "absent", "insert": show(iv)[:80]})
        ok = ok and same_key and same_map and val_ok
    chk.ob(rule + "/cover", what, set(seen) == {True, False}, "both states (absent, present) must have a row", b["span"])
    return rets[0] if ok and set(seen) == {True, False} else None


def variant_flow(chk, cfg, b, rule, what, getter_ok, rows):
    """try_to_codon-like lookup: paths keyed by discr(get(..)) and discr(inner)."""
    paths, _ = an.analyse(cfg, b, policy=an.ForkPolicy())
    rets = [p for p in paths if p.end == "return"]
    out = {}
    for p in rets:
        sw = [g for g in p.guards if g[0] == "sw" and g[1][0] == "discr"]
        outer = inner = None
        for g in sw:
            t = g[1][1]
            if an.is_call(t, re.compile(r"HashMap::<.*>::get::<")):
                outer = (g[2], g[3], t)
            elif t[0] == "F" and t[1][0] == "downcast":
                inner = (g[2], g[3])
        if outer is None:
            chk.cannot(rule, what, "path not keyed by the map lookup: " + p.describe()[:200], b["span"])
            return
        if not getter_ok(outer[2]):
            chk.fail(rule, what, "mismatch", "looks up %s" % show(outer[2])[:160], b["span"])
        def is_some(x):
            return (x[0] == "==" and x[1] == 1) or (x[0] == "notin" and 1 not in x[1])

        if not is_some(outer):
            state = "None"
        elif inner is None:
            state = "Some(_)"
        elif is_some(inner):
            state = "Some(Some)"
        else:
            state = "Some(None)"
        k, v = opt_kind(p.ret)
        if k == "Ok":
            res = "Ok(clone)" if an.is_call(v, re.compile(r"as std::clone::Clone>::clone$")) and "Some" in show(v) else "Ok(?)"
        elif k == "Err" and isinstance(v, tuple) and v[0] == "agg":
            res = "Err(%s)" % v[3] if v[4] == (P(2),) else "Err(%s:wrong payload)" % v[3]
        else:
            res = show(p.ret)[:60]
        out.setdefault(state, set()).add(res)
    for state, want in rows.items():
        got = out.get(state, set())
        if state == "None" and not got and "Some(_)" not in out:
            # `None | Some(None)` merged arm shows as notin
            pass
        chk.ob(rule, "%s [%s]" % (what, state), got == {want}, "lookup state %s yields %s, expected %s" % (state, sorted(got), want), b["span"],
               sample={"state": state, "result": sorted(got)})
    extra = set(out) - set(rows)
    chk.ob(rule + "/cover", what, not extra, "unexpected lookup states %s" % sorted(extra), b["span"])
