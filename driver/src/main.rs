// bsq-facts: rustc_private fact extractor for the bio-seq static checker.
//
// Used as RUSTC_WORKSPACE_WRAPPER: argv = [self, rustc, rustc-args...].
// For every crate it compiles it writes one JSON file into $BSQ_FACTS_DIR
// (one write per process) with MIR bodies, ADTs, impls and evaluated
// constants/statics.  Nothing is executed; codegen continues normally so
// that dependent crates (and proc-macro crates) still build.
#![feature(rustc_private)]
#![allow(clippy::all)]

extern crate rustc_abi;
extern crate rustc_driver;
extern crate rustc_hir;
extern crate rustc_interface;
extern crate rustc_middle;
extern crate rustc_span;

use rustc_driver::{Callbacks, Compilation};
use rustc_hir::def::DefKind;
use rustc_hir::def_id::{DefId, LocalDefId};
use rustc_interface::interface;
use rustc_middle::mir::{
    self, AggregateKind, BasicBlockData, Body, Const, Operand, Place, ProjectionElem, Rvalue,
    StatementKind, TerminatorKind,
};
use rustc_middle::ty::print::PrintTraitRefExt as _;
use rustc_middle::ty::{self, Instance, Ty, TyCtxt, TypingEnv};
use std::fmt::Write as _;

// ---------- tiny JSON builder ----------
fn esc(s: &str) -> String {
    let mut o = String::with_capacity(s.len() + 2);
    o.push('"');
    for c in s.chars() {
        match c {
            '"' => o.push_str("\\\""),
            '\\' => o.push_str("\\\\"),
            '\n' => o.push_str("\\n"),
            '\r' => o.push_str("\\r"),
            '\t' => o.push_str("\\t"),
            c if (c as u32) < 0x20 => {
                let _ = write!(o, "\\u{:04x}", c as u32);
            }
            c => o.push(c),
        }
    }
    o.push('"');
    o
}
fn obj(fields: &[(&str, String)]) -> String {
    let mut o = String::from("{");
    for (i, (k, v)) in fields.iter().enumerate() {
        if i > 0 {
            o.push(',');
        }
        o.push_str(&esc(k));
        o.push(':');
        o.push_str(v);
    }
    o.push('}');
    o
}
fn arr(items: Vec<String>) -> String {
    let mut o = String::from("[");
    for (i, v) in items.iter().enumerate() {
        if i > 0 {
            o.push(',');
        }
        o.push_str(v);
    }
    o.push(']');
    o
}
fn opt_s(o: Option<String>) -> String {
    match o {
        Some(s) => esc(&s),
        None => "null".into(),
    }
}

struct Cx<'tcx> {
    tcx: TyCtxt<'tcx>,
}

impl<'tcx> Cx<'tcx> {
    /// Definition path, printed so that it does not depend on *which module* an impl block or a nested item sits in:
    /// items of a trait impl are `<Self as Trait<..>>::name`, items of an inherent impl are `path::to::Type::<Args>::name`
    /// (rustc prints `module::<impl ..>::name` when the impl lives in another module than its type), and items nested in
    /// such items (closures, consts, statics) hang off the canonical path of their parent.
    fn path(&self, d: DefId) -> String {
        self.path_with(d, None)
    }

    fn own_args(&self, d: DefId, args: Option<ty::GenericArgsRef<'tcx>>) -> String {
        // the item's own (non-parent) generic arguments, `::<..>` as rustc prints them for a value path
        if let Some(args) = args {
            let g = self.tcx.generics_of(d);
            let own: Vec<String> = args
                .iter()
                .skip(g.parent_count)
                .filter(|a| a.as_region().is_none())
                .map(|a| format!("{a}"))
                .collect();
            if !own.is_empty() {
                return format!("::<{}>", own.join(", "));
            }
        }
        String::new()
    }

    fn path_with(&self, d: DefId, args: Option<ty::GenericArgsRef<'tcx>>) -> String {
        let tcx = self.tcx;
        let plain = || match args {
            Some(a) => tcx.def_path_str_with_args(d, a),
            None => tcx.def_path_str(d),
        };
        if !d.is_local() {
            return plain();
        }
        let Some(parent) = tcx.opt_parent(d) else { return plain() };
        match tcx.def_kind(parent) {
            DefKind::Impl { .. } => {
                let Some(name) = tcx.opt_item_name(d) else { return plain() };
                let pargs = args.map(|a| {
                    let n = tcx.generics_of(parent).count();
                    tcx.mk_args(&a[..n.min(a.len())])
                });
                let self_ty = match pargs {
                    Some(pa) => tcx.type_of(parent).instantiate(tcx, pa).skip_norm_wip(),
                    None => tcx.type_of(parent).instantiate_identity().skip_norm_wip(),
                };
                let own = self.own_args(d, args);
                if let Some(tr) = tcx.impl_opt_trait_ref(parent) {
                    let tr = match pargs {
                        Some(pa) => tr.instantiate(tcx, pa).skip_norm_wip(),
                        None => tr.instantiate_identity().skip_norm_wip(),
                    };
                    return format!("<{} as {}>::{}{}", self_ty, tr.print_only_trait_path(), name, own);
                }
                if let ty::Adt(adt, aargs) = self_ty.kind() {
                    let ap = tcx.def_path_str(adt.did());
                    let shown: Vec<String> =
                        aargs.iter().filter(|a| a.as_region().is_none()).map(|a| format!("{a}")).collect();
                    if shown.is_empty() {
                        return format!("{}::{}{}", ap, name, own);
                    }
                    return format!("{}::<{}>::{}{}", ap, shown.join(", "), name, own);
                }
                format!("<{}>::{}{}", self_ty, name, own)
            }
            DefKind::Mod => plain(),
            _ => {
                // nested item: canonical parent + the last component as rustc prints it
                let full = tcx.def_path_str(d);
                let pfull = tcx.def_path_str(parent);
                if let Some(suffix) = full.strip_prefix(&pfull) {
                    let pp = self.path_with(parent, None);
                    if pp != pfull {
                        return format!("{}{}", pp, suffix);
                    }
                }
                plain()
            }
        }
    }
    fn span(&self, sp: rustc_span::Span) -> String {
        let sm = self.tcx.sess.source_map();
        let lo = sm.lookup_char_pos(sp.lo());
        format!("{}:{}", lo.file.name.prefer_local_unconditionally(), lo.line)
    }
    fn ty(&self, t: Ty<'tcx>) -> String {
        format!("{t}")
    }

    fn place(&self, p: &Place<'tcx>, body: &Body<'tcx>) -> String {
        let mut projs = Vec::new();
        let mut cur = mir::PlaceTy::from_ty(body.local_decls[p.local].ty);
        for e in p.projection.iter() {
            let s = match e {
                ProjectionElem::Deref => obj(&[("k", esc("deref"))]),
                ProjectionElem::Field(f, t) => {
                    // field name where the base is an ADT
                    let mut name = None;
                    if let ty::Adt(adt, _) = cur.ty.kind() {
                        let vi = cur.variant_index.unwrap_or(rustc_abi::FIRST_VARIANT);
                        if adt.is_enum() || adt.is_struct() || adt.is_union() {
                            if let Some(v) = adt.variants().get(vi) {
                                if let Some(fd) = v.fields.get(f) {
                                    name = Some(fd.name.to_string());
                                }
                            }
                        }
                    }
                    obj(&[
                        ("k", esc("field")),
                        ("i", format!("{}", f.as_usize())),
                        ("name", opt_s(name)),
                        ("ty", esc(&self.ty(t))),
                    ])
                }
                ProjectionElem::Downcast(name, v) => obj(&[
                    ("k", esc("downcast")),
                    ("v", format!("{}", v.as_usize())),
                    ("name", opt_s(name.map(|n| n.to_string()))),
                ]),
                ProjectionElem::Index(l) => {
                    obj(&[("k", esc("index")), ("l", format!("{}", l.as_usize()))])
                }
                ProjectionElem::ConstantIndex { offset, min_length, from_end } => obj(&[
                    ("k", esc("constindex")),
                    ("offset", format!("{offset}")),
                    ("min_length", format!("{min_length}")),
                    ("from_end", format!("{from_end}")),
                ]),
                ProjectionElem::Subslice { from, to, from_end } => obj(&[
                    ("k", esc("subslice")),
                    ("from", format!("{from}")),
                    ("to", format!("{to}")),
                    ("from_end", format!("{from_end}")),
                ]),
                other => obj(&[("k", esc("other")), ("text", esc(&format!("{other:?}")))]),
            };
            projs.push(s);
            cur = cur.projection_ty(self.tcx, e);
        }
        obj(&[("l", format!("{}", p.local.as_usize())), ("proj", arr(projs))])
    }

    fn fn_def_of(&self, c: &Const<'tcx>) -> Option<(DefId, ty::GenericArgsRef<'tcx>)> {
        if let ty::FnDef(d, a) = c.ty().kind() {
            Some((*d, a))
        } else {
            None
        }
    }

    fn constant(&self, c: &Const<'tcx>, owner: DefId) -> String {
        let ty = c.ty();
        let mut fields: Vec<(&str, String)> =
            vec![("k", esc("const")), ("ty", esc(&self.ty(ty))), ("text", esc(&format!("{c}")))];
        // function item?
        if let Some((d, args)) = self.fn_def_of(c) {
            fields.push(("fn", esc(&self.path(d))));
            fields.push(("fn_args", arr(args.iter().map(|a| esc(&format!("{a}"))).collect())));
            return obj(&fields);
        }
        // evaluated scalar?
        let env = TypingEnv::post_analysis(self.tcx, owner);
        let mut val: Option<String> = None;
        if ty.is_integral() || ty.is_bool() || ty.is_char() {
            if let Some(si) = c.try_eval_scalar_int(self.tcx, env) {
                let size = si.size();
                let bits = si.to_bits(size);
                if ty.is_signed() {
                    let v = size.sign_extend(bits) as i128;
                    val = Some(format!("{v}"));
                } else {
                    val = Some(format!("{bits}"));
                }
            }
        }
        fields.push(("val", val.unwrap_or_else(|| "null".into())));
        match c {
            Const::Unevaluated(u, _) => {
                if u.def.is_local() && u.promoted.is_none() && self.tcx.impl_of_assoc(u.def).is_some() {
                    // module-independent text for associated consts of local impls
                    fields[2] = ("text", esc(&self.path_with(u.def, Some(u.args))));
                }
                fields.push(("def", esc(&self.path(u.def))));
                fields.push((
                    "def_args",
                    arr(u.args.iter().map(|a| esc(&format!("{a}"))).collect()),
                ));
                if let Some(p) = u.promoted {
                    fields.push(("promoted", format!("{}", p.as_usize())));
                }
            }
            Const::Ty(_, ct) => {
                fields.push(("tyconst", esc(&format!("{ct}"))));
                if let ty::ConstKind::Param(p) = ct.kind() {
                    fields.push(("param", esc(&p.name.to_string())));
                }
                if let ty::ConstKind::Unevaluated(u) = ct.kind() {
                    fields.push(("def", esc(&self.path(u.def))));
                    fields.push((
                        "def_args",
                        arr(u.args.iter().map(|a| esc(&format!("{a}"))).collect()),
                    ));
                }
            }
            Const::Val(cv, _) => {
                // reference to a static / promoted allocation
                if let mir::ConstValue::Scalar(rustc_middle::mir::interpret::Scalar::Ptr(p, _)) = cv {
                    let (prov, off) = p.prov_and_relative_offset();
                    if let Some(ga) = self.tcx.try_get_global_alloc(prov.alloc_id()) {
                        match ga {
                            rustc_middle::mir::interpret::GlobalAlloc::Static(d) => {
                                fields.push(("static_ref", esc(&self.path(d))));
                                fields.push(("static_off", format!("{}", off.bytes())));
                            }
                            rustc_middle::mir::interpret::GlobalAlloc::Memory(m) => {
                                if let Some(b) = self.alloc_bytes(m.inner()) {
                                    fields.push(("mem_bytes", b));
                                    fields.push(("mem_off", format!("{}", off.bytes())));
                                }
                            }
                            _ => {}
                        }
                    }
                }
                // string / byte-string literals
                if let ty::Ref(_, inner, _) = ty.kind() {
                    if inner.is_str() {
                        if let Some(bytes) = cv.try_get_slice_bytes_for_diagnostics(self.tcx) {
                            fields.push(("str", esc(&String::from_utf8_lossy(bytes))));
                        }
                    }
                }
            }
        }
        obj(&fields)
    }

    fn operand(&self, o: &Operand<'tcx>, body: &Body<'tcx>, owner: DefId) -> String {
        match o {
            Operand::Copy(p) => obj(&[("k", esc("copy")), ("p", self.place(p, body))]),
            Operand::Move(p) => obj(&[("k", esc("move")), ("p", self.place(p, body))]),
            Operand::Constant(c) => self.constant(&c.const_, owner),
            other => obj(&[("k", esc("other")), ("text", esc(&format!("{other:?}")))]),
        }
    }

    fn rvalue(&self, rv: &Rvalue<'tcx>, body: &Body<'tcx>, owner: DefId) -> String {
        match rv {
            Rvalue::Use(o, ..) => obj(&[("k", esc("use")), ("op", self.operand(o, body, owner))]),
            Rvalue::Repeat(o, n) => obj(&[
                ("k", esc("repeat")),
                ("op", self.operand(o, body, owner)),
                ("n", esc(&format!("{n}"))),
            ]),
            Rvalue::Ref(_, bk, p) => obj(&[
                ("k", esc("ref")),
                ("mut", format!("{}", matches!(bk, mir::BorrowKind::Mut { .. }))),
                ("p", self.place(p, body)),
            ]),
            Rvalue::RawPtr(k, p) => obj(&[
                ("k", esc("rawptr")),
                ("kind", esc(&format!("{k:?}"))),
                ("p", self.place(p, body)),
            ]),
            Rvalue::Cast(ck, o, t) => obj(&[
                ("k", esc("cast")),
                ("ck", esc(&format!("{ck:?}"))),
                ("op", self.operand(o, body, owner)),
                ("from", esc(&self.ty(o.ty(&body.local_decls, self.tcx)))),
                ("ty", esc(&self.ty(*t))),
            ]),
            Rvalue::BinaryOp(op, ab) => obj(&[
                ("k", esc("binop")),
                ("op", esc(&format!("{op:?}"))),
                ("a", self.operand(&ab.0, body, owner)),
                ("b", self.operand(&ab.1, body, owner)),
                ("aty", esc(&self.ty(ab.0.ty(&body.local_decls, self.tcx)))),
            ]),
            Rvalue::UnaryOp(op, o) => obj(&[
                ("k", esc("unop")),
                ("op", esc(&format!("{op:?}"))),
                ("a", self.operand(o, body, owner)),
            ]),
            Rvalue::Discriminant(p) => {
                obj(&[("k", esc("discr")), ("p", self.place(p, body))])
            }
            Rvalue::CopyForDeref(p) => obj(&[
                ("k", esc("use")),
                ("op", obj(&[("k", esc("copy")), ("p", self.place(p, body))])),
            ]),
            Rvalue::Aggregate(ak, ops) => {
                let mut f: Vec<(&str, String)> = vec![("k", esc("aggregate"))];
                match &**ak {
                    AggregateKind::Array(t) => {
                        f.push(("ak", esc("array")));
                        f.push(("elem", esc(&self.ty(*t))));
                    }
                    AggregateKind::Tuple => f.push(("ak", esc("tuple"))),
                    AggregateKind::Adt(d, v, args, _, fld) => {
                        f.push(("ak", esc("adt")));
                        f.push(("adt", esc(&self.path(*d))));
                        let adt = self.tcx.adt_def(*d);
                        f.push(("variant", format!("{}", v.as_usize())));
                        f.push(("vname", esc(&adt.variant(*v).name.to_string())));
                        f.push((
                            "fields",
                            arr(adt
                                .variant(*v)
                                .fields
                                .iter()
                                .map(|x| esc(&x.name.to_string()))
                                .collect()),
                        ));
                        f.push((
                            "adt_args",
                            arr(args.iter().map(|a| esc(&format!("{a}"))).collect()),
                        ));
                        if let Some(fi) = fld {
                            f.push(("union_field", format!("{}", fi.as_usize())));
                        }
                    }
                    AggregateKind::Closure(d, _) => {
                        f.push(("ak", esc("closure")));
                        f.push(("closure", esc(&self.path(*d))));
                        f.push(("closure_id", esc(&format!("{d:?}"))));
                    }
                    other => {
                        f.push(("ak", esc("other")));
                        f.push(("text", esc(&format!("{other:?}"))));
                    }
                }
                f.push(("ops", arr(ops.iter().map(|o| self.operand(o, body, owner)).collect())));
                obj(&f)
            }
            other => obj(&[("k", esc("other")), ("text", esc(&format!("{other:?}")))]),
        }
    }

    fn callee(&self, func: &Operand<'tcx>, body: &Body<'tcx>, owner: DefId) -> String {
        if let Operand::Constant(c) = func {
            if let Some((d, args)) = self.fn_def_of(&c.const_) {
                let mut f: Vec<(&str, String)> = vec![
                    ("def", esc(&self.path(d))),
                    ("def_noargs", esc(&self.path(d))),
                    ("args", arr(args.iter().map(|a| esc(&format!("{a}"))).collect())),
                    ("text", esc(&if d.is_local() && self.tcx.impl_of_assoc(d).is_some() { self.path_with(d, Some(args)) } else { format!("{}", c.const_) })),
                    ("krate", esc(&self.tcx.crate_name(d.krate).to_string())),
                ];
                // trait method?
                if let Some(tr) = self.tcx.trait_of_assoc(d) {
                    f.push(("trait", esc(&self.path(tr))));
                    if let Some(self_ty) = args.types().next() {
                        f.push(("self_ty", esc(&self.ty(self_ty))));
                    }
                }
                if let Some(imp) = self.tcx.impl_of_assoc(d) {
                    f.push(("impl_self", esc(&self.ty(
                        self.tcx.type_of(imp).instantiate_identity().skip_norm_wip(),
                    ))));
                }
                let env = TypingEnv::post_analysis(self.tcx, owner);
                if let Ok(Some(inst)) = Instance::try_resolve(self.tcx, env, d, args) {
                    let rd = inst.def_id();
                    f.push(("resolved", esc(&self.path(rd))));
                    f.push((
                        "resolved_args",
                        arr(inst.args.iter().map(|a| esc(&format!("{a}"))).collect()),
                    ));
                    f.push(("resolved_kind", esc(&format!("{:?}", std::mem::discriminant(&inst.def)))));
                    f.push(("resolved_text", esc(&if rd.is_local() && self.tcx.impl_of_assoc(rd).is_some() { self.path_with(rd, Some(inst.args)) } else { format!("{inst}") })));
                    f.push(("resolved_local", format!("{}", rd.is_local())));
                    if let Some(imp) = self.tcx.impl_of_assoc(rd) {
                        f.push(("resolved_impl_self", esc(&self.ty(
                            self.tcx.type_of(imp).instantiate_identity().skip_norm_wip(),
                        ))));
                    }
                }
                return obj(&f);
            }
        }
        obj(&[("indirect", self.operand(func, body, owner))])
    }

    fn block(&self, bb: &BasicBlockData<'tcx>, body: &Body<'tcx>, owner: DefId) -> String {
        let mut stmts = Vec::new();
        for s in &bb.statements {
            match &s.kind {
                StatementKind::Assign(b) => {
                    let (p, rv) = &**b;
                    stmts.push(obj(&[
                        ("k", esc("assign")),
                        ("p", self.place(p, body)),
                        ("rv", self.rvalue(rv, body, owner)),
                        ("line", esc(&self.span(s.source_info.span))),
                        ("exp", format!("{}", s.source_info.span.from_expansion())),
                    ]));
                }
                StatementKind::SetDiscriminant { place, variant_index } => {
                    stmts.push(obj(&[
                        ("k", esc("setdiscr")),
                        ("p", self.place(place, body)),
                        ("v", format!("{}", variant_index.as_usize())),
                    ]));
                }
                StatementKind::Intrinsic(i) => {
                    stmts.push(obj(&[("k", esc("intrinsic")), ("text", esc(&format!("{i:?}")))]));
                }
                _ => {}
            }
        }
        let t = bb.terminator();
        let line = self.span(t.source_info.span);
        let exp = format!("{}", t.source_info.span.from_expansion());
        let term = match &t.kind {
            TerminatorKind::Goto { target } => {
                obj(&[("k", esc("goto")), ("t", format!("{}", target.as_usize()))])
            }
            TerminatorKind::SwitchInt { discr, targets } => {
                let mut ts = Vec::new();
                for (v, b) in targets.iter() {
                    ts.push(format!("[{},{}]", v, b.as_usize()));
                }
                obj(&[
                    ("k", esc("switch")),
                    ("op", self.operand(discr, body, owner)),
                    ("opty", esc(&self.ty(discr.ty(&body.local_decls, self.tcx)))),
                    ("targets", arr(ts)),
                    ("otherwise", format!("{}", targets.otherwise().as_usize())),
                    ("line", esc(&line)),
                ])
            }
            TerminatorKind::Return => obj(&[("k", esc("return"))]),
            TerminatorKind::Unreachable => obj(&[("k", esc("unreachable"))]),
            TerminatorKind::UnwindResume => obj(&[("k", esc("resume"))]),
            TerminatorKind::UnwindTerminate(_) => obj(&[("k", esc("terminate"))]),
            TerminatorKind::Drop { place, target, .. } => obj(&[
                ("k", esc("drop")),
                ("p", self.place(place, body)),
                ("t", format!("{}", target.as_usize())),
            ]),
            TerminatorKind::Call { func, args, destination, target, fn_span, .. } => obj(&[
                ("k", esc("call")),
                ("func", self.callee(func, body, owner)),
                ("args", arr(args.iter().map(|a| self.operand(&a.node, body, owner)).collect())),
                ("dest", self.place(destination, body)),
                ("t", target.map(|b| format!("{}", b.as_usize())).unwrap_or("null".into())),
                ("line", esc(&self.span(*fn_span))),
                ("exp", exp),
                (
                    "macro",
                    opt_s(
                        t.source_info
                            .span
                            .macro_backtrace()
                            .next()
                            .map(|e| e.kind.descr().to_string()),
                    ),
                ),
            ]),
            TerminatorKind::Assert { cond, expected, msg, target, .. } => obj(&[
                ("k", esc("assert")),
                ("cond", self.operand(cond, body, owner)),
                ("expected", format!("{expected}")),
                ("msg", esc(&format!("{:?}", std::mem::discriminant(&**msg)))),
                ("msgtext", esc(&format!("{msg:?}"))),
                ("t", format!("{}", target.as_usize())),
                ("line", esc(&line)),
            ]),
            TerminatorKind::FalseEdge { real_target, .. } => {
                obj(&[("k", esc("goto")), ("t", format!("{}", real_target.as_usize()))])
            }
            TerminatorKind::FalseUnwind { real_target, .. } => {
                obj(&[("k", esc("goto")), ("t", format!("{}", real_target.as_usize()))])
            }
            other => obj(&[("k", esc("other")), ("text", esc(&format!("{other:?}")))]),
        };
        obj(&[("stmts", arr(stmts)), ("term", term), ("cleanup", format!("{}", bb.is_cleanup))])
    }

    fn impl_info(&self, d: DefId) -> String {
        // enclosing impl, if any
        let parent = match self.tcx.def_kind(d) {
            DefKind::AssocFn | DefKind::AssocConst { .. } | DefKind::AssocTy => {
                self.tcx.opt_parent(d)
            }
            _ => None,
        };
        let Some(p) = parent else { return "null".into() };
        if !matches!(self.tcx.def_kind(p), DefKind::Impl { .. }) {
            // trait default method
            if matches!(self.tcx.def_kind(p), DefKind::Trait) {
                return obj(&[("trait_default", esc(&self.path(p)))]);
            }
            return "null".into();
        }
        self.impl_obj(p)
    }

    fn gens(&self, d: DefId) -> String {
        let generics = self.tcx.generics_of(d);
        let mut gens = Vec::new();
        for i in 0..generics.count() {
            let p = generics.param_at(i, self.tcx);
            gens.push(esc(&p.name.to_string()));
        }
        arr(gens)
    }

    fn impl_obj(&self, p: DefId) -> String {
        let self_ty = self.tcx.type_of(p).instantiate_identity().skip_norm_wip();
        let tr = self.tcx.impl_opt_trait_ref(p).map(|t| t.instantiate_identity().skip_norm_wip());
        let preds = self.tcx.predicates_of(p);
        let mut ps = Vec::new();
        for (cl, _) in preds.predicates {
            ps.push(esc(&format!("{cl}")));
        }
        obj(&[
            ("id", esc(&format!("{p:?}"))),
            ("self_ty", esc(&self.ty(self_ty))),
            ("trait", opt_s(tr.map(|t| self.path(t.def_id)))),
            ("trait_ref", opt_s(tr.map(|t| format!("{t}")))),
            (
                "trait_args",
                match tr {
                    Some(t) => arr(t.args.iter().map(|a| esc(&format!("{a}"))).collect()),
                    None => "null".into(),
                },
            ),
            ("derived", format!("{}", self.tcx.is_automatically_derived(p))),
            ("generics", self.gens(p)),
            ("predicates", arr(ps)),
            ("span", esc(&self.span(self.tcx.def_span(p)))),
            ("exp", format!("{}", self.tcx.def_span(p).from_expansion())),
        ])
    }

    fn body(&self, ld: LocalDefId) -> Option<String> {
        let d = ld.to_def_id();
        let kind = self.tcx.def_kind(d);
        let body: &Body<'tcx> = match kind {
            DefKind::Fn | DefKind::AssocFn | DefKind::Closure => {
                if !self.tcx.is_mir_available(d) {
                    return None;
                }
                self.tcx.optimized_mir(d)
            }
            DefKind::Const { .. }
            | DefKind::AssocConst { .. }
            | DefKind::Static { .. }
            | DefKind::AnonConst
            | DefKind::InlineConst => {
                if !self.tcx.is_mir_available(d) && !matches!(kind, DefKind::Static { .. }) {
                    // consts always have ctfe mir if they have a body
                }
                if self.tcx.hir_maybe_body_owned_by(ld).is_none() {
                    return None;
                }
                self.tcx.mir_for_ctfe(d)
            }
            _ => return None,
        };
        let mut out_extra: Vec<String> = Vec::new();
        if matches!(kind, DefKind::Fn | DefKind::AssocFn | DefKind::Closure) {
            for (pi, pb) in self.tcx.promoted_mir(d).iter_enumerated() {
                let mut pblocks = Vec::new();
                for bb in pb.basic_blocks.iter() {
                    pblocks.push(self.block(bb, pb, d));
                }
                let mut plocals = Vec::new();
                for ldcl in pb.local_decls.iter() {
                    plocals.push(obj(&[("ty", esc(&self.ty(ldcl.ty))), ("name", "null".into())]));
                }
                out_extra.push(obj(&[
                    ("index", format!("{}", pi.as_usize())),
                    ("ret_ty", esc(&self.ty(pb.return_ty()))),
                    ("locals", arr(plocals)),
                    ("blocks", arr(pblocks)),
                ]));
            }
        }
        let mut locals = Vec::new();
        let mut names: Vec<Option<String>> = vec![None; body.local_decls.len()];
        for vdi in &body.var_debug_info {
            if let mir::VarDebugInfoContents::Place(p) = &vdi.value {
                if p.projection.is_empty() {
                    names[p.local.as_usize()] = Some(vdi.name.to_string());
                }
            }
        }
        for (i, ldcl) in body.local_decls.iter().enumerate() {
            locals.push(obj(&[
                ("ty", esc(&self.ty(ldcl.ty))),
                ("name", opt_s(names[i].clone())),
            ]));
        }
        // closure captures debug info (names of upvars)
        let mut upvars = Vec::new();
        for vdi in &body.var_debug_info {
            if let mir::VarDebugInfoContents::Place(p) = &vdi.value {
                if !p.projection.is_empty() && p.local.as_usize() == 1 {
                    upvars.push(obj(&[
                        ("name", esc(&vdi.name.to_string())),
                        ("p", self.place(p, body)),
                    ]));
                }
            }
        }
        let mut blocks = Vec::new();
        for bb in body.basic_blocks.iter() {
            blocks.push(self.block(bb, body, d));
        }
        let vis = match kind {
            DefKind::Fn | DefKind::AssocFn => format!("{:?}", self.tcx.visibility(d)),
            _ => String::new(),
        };
        let generics = self.tcx.generics_of(d);
        let mut gens = Vec::new();
        for i in 0..generics.count() {
            let p = generics.param_at(i, self.tcx);
            gens.push(esc(&p.name.to_string()));
        }
        let sp = self.tcx.def_span(d);
        Some(obj(&[
            ("path", esc(&self.path(d))),
            ("id", esc(&format!("{d:?}"))),
            ("kind", esc(&format!("{kind:?}"))),
            ("span", esc(&self.span(sp))),
            ("exp", format!("{}", sp.from_expansion())),
            (
                "macro",
                opt_s(sp.macro_backtrace().next().map(|e| e.kind.descr().to_string())),
            ),
            ("vis", esc(&vis)),
            ("impl", self.impl_info(d)),
            (
                "parent",
                opt_s(self.tcx.opt_parent(d).map(|p| self.path(p))),
            ),
            ("generics", arr(gens)),
            ("arg_count", format!("{}", body.arg_count)),
            ("ret_ty", esc(&self.ty(body.return_ty()))),
            ("locals", arr(locals)),
            ("upvars", arr(upvars)),
            ("blocks", arr(blocks)),
            ("promoted", arr(out_extra)),
        ]))
    }

    fn adt(&self, d: DefId) -> String {
        let adt = self.tcx.adt_def(d);
        let mut vars = Vec::new();
        for (vi, v) in adt.variants().iter_enumerated() {
            let discr = if adt.is_enum() {
                format!("{}", adt.discriminant_for_variant(self.tcx, vi).val)
            } else {
                "null".into()
            };
            let mut fields = Vec::new();
            for f in v.fields.iter() {
                let fty = self.tcx.type_of(f.did).instantiate_identity().skip_norm_wip();
                fields.push(obj(&[
                    ("name", esc(&f.name.to_string())),
                    ("ty", esc(&self.ty(fty))),
                    ("vis", esc(&format!("{:?}", f.vis))),
                ]));
            }
            vars.push(obj(&[
                ("name", esc(&v.name.to_string())),
                ("discr", discr),
                ("fields", arr(fields)),
            ]));
        }
        let repr = adt.repr();
        obj(&[
            ("path", esc(&self.path(d))),
            ("kind", esc(if adt.is_enum() {
                "enum"
            } else if adt.is_union() {
                "union"
            } else {
                "struct"
            })),
            ("generics", self.gens(d)),
            ("transparent", format!("{}", repr.transparent())),
            ("repr_c", format!("{}", repr.c())),
            ("repr_int", opt_s(repr.int.map(|i| format!("{i:?}")))),
            ("repr", esc(&format!("{repr:?}"))),
            ("variants", arr(vars)),
            ("span", esc(&self.span(self.tcx.def_span(d)))),
            ("vis", esc(&format!("{:?}", self.tcx.visibility(d)))),
        ])
    }

    // raw bytes of an evaluated static / const allocation (no provenance)
    fn alloc_bytes(&self, alloc: &rustc_middle::mir::interpret::Allocation) -> Option<String> {
        if !alloc.provenance().ptrs().is_empty() {
            return None;
        }
        let bytes = alloc.inspect_with_uninit_and_ptr_outside_interpreter(0..alloc.len());
        Some(arr(bytes.iter().map(|b| format!("{b}")).collect()))
    }

    fn evaluated(&self, ld: LocalDefId) -> Option<String> {
        let d = ld.to_def_id();
        let kind = self.tcx.def_kind(d);
        match kind {
            DefKind::Static { nested: false, .. } => {
                let ty = self.tcx.type_of(d).instantiate_identity().skip_norm_wip();
                let r = self.tcx.eval_static_initializer(d).ok()?;
                let bytes = self.alloc_bytes(r.inner())?;
                let mut adt_args = "null".to_string();
                let mut adt_path = "null".to_string();
                if let ty::Adt(a, args) = ty.kind() {
                    adt_path = esc(&self.path(a.did()));
                    // normalise const args
                    let env = TypingEnv::post_analysis(self.tcx, d);
                    let mut v = Vec::new();
                    for ga in args.iter() {
                        if let Some(ct) = ga.as_const() {
                            let n = self
                                .tcx
                                .try_normalize_erasing_regions(env, ty::Unnormalized::new_wip(ct))
                                .unwrap_or(ct);
                            v.push(esc(&format!("{n}")));
                        } else {
                            v.push(esc(&format!("{ga}")));
                        }
                    }
                    adt_args = arr(v);
                }
                Some(obj(&[
                    ("path", esc(&self.path(d))),
                    ("kind", esc("static")),
                    ("ty", esc(&self.ty(ty))),
                    ("adt", adt_path),
                    ("adt_args", adt_args),
                    ("bytes", bytes),
                    ("span", esc(&self.span(self.tcx.def_span(d)))),
                    ("parent", opt_s(self.tcx.opt_parent(d).map(|p| self.path(p)))),
                ]))
            }
            DefKind::Const { .. } | DefKind::AssocConst { .. } => {
                // only non-generic consts
                let generics = self.tcx.generics_of(d);
                if generics.count() != 0 || generics.parent_count != 0 {
                    // AssocConst in a non-generic impl has parent_count 0
                    return None;
                }
                if self.tcx.hir_maybe_body_owned_by(ld).is_none() {
                    return None;
                }
                let ty = self.tcx.type_of(d).instantiate_identity().skip_norm_wip();
                let cv = self.tcx.const_eval_poly(d).ok()?;
                let mut f: Vec<(&str, String)> = vec![
                    ("path", esc(&self.path(d))),
                    ("kind", esc("const")),
                    ("ty", esc(&self.ty(ty))),
                    ("span", esc(&self.span(self.tcx.def_span(d)))),
                    ("impl", self.impl_info(d)),
                ];
                match cv {
                    mir::ConstValue::Scalar(s) => {
                        if let Ok(si) = s.try_to_scalar_int() {
                            f.push(("val", format!("{}", si.to_bits(si.size()))));
                        }
                    }
                    mir::ConstValue::Indirect { alloc_id, offset } => {
                        if offset.bytes() == 0 {
                            if let Some(ga) = self.tcx.try_get_global_alloc(alloc_id) {
                                if let rustc_middle::mir::interpret::GlobalAlloc::Memory(m) = ga {
                                    if let Some(b) = self.alloc_bytes(m.inner()) {
                                        f.push(("bytes", b));
                                    }
                                }
                            }
                        }
                    }
                    _ => {}
                }
                Some(obj(&f))
            }
            _ => None,
        }
    }
}

struct Facts;

impl Callbacks for Facts {
    fn after_analysis<'tcx>(&mut self, _c: &interface::Compiler, tcx: TyCtxt<'tcx>) -> Compilation {
        let dir = match std::env::var("BSQ_FACTS_DIR") {
            Ok(d) => d,
            Err(_) => return Compilation::Continue,
        };
        let cx = Cx { tcx };
        let krate = tcx.crate_name(rustc_hir::def_id::LOCAL_CRATE).to_string();
        let only = std::env::var("BSQ_FACTS_CRATES").unwrap_or_default();
        if !only.is_empty() && !only.split(',').any(|c| c == krate) {
            return Compilation::Continue;
        }
        let mut bodies = Vec::new();
        let mut adts = Vec::new();
        let mut impls = Vec::new();
        let mut evals = Vec::new();
        let mut fns = Vec::new();
        for ld in tcx.iter_local_def_id() {
            let d = ld.to_def_id();
            let kind = tcx.def_kind(d);
            match kind {
                DefKind::Struct | DefKind::Enum | DefKind::Union => adts.push(cx.adt(d)),
                DefKind::Impl { .. } => impls.push(cx.impl_obj(d)),
                _ => {}
            }
            if matches!(kind, DefKind::Fn | DefKind::AssocFn) {
                // signatures (also for bodiless trait methods)
                let sig = tcx.fn_sig(d).instantiate_identity().skip_norm_wip();
                fns.push(obj(&[
                    ("path", esc(&cx.path(d))),
                    ("id", esc(&format!("{d:?}"))),
                    ("vis", esc(&format!("{:?}", tcx.visibility(d)))),
                    ("sig", esc(&format!("{sig}"))),
                    ("impl", cx.impl_info(d)),
                    ("span", esc(&cx.span(tcx.def_span(d)))),
                    ("unsafe", format!("{}", !sig.safety().is_safe())),
                ]));
            }
            if let Some(b) = cx.body(ld) {
                bodies.push(b);
            }
            if let Some(e) = cx.evaluated(ld) {
                evals.push(e);
            }
        }
        let nonce = std::env::var("BSQ_NONCE").unwrap_or_default();
        let cfgs: Vec<String> = std::env::args().collect();
        let is_test = cfgs.iter().any(|a| a == "--test");
        let features: Vec<String> = {
            let mut v = Vec::new();
            let mut it = cfgs.iter();
            while let Some(a) = it.next() {
                if a == "--cfg" {
                    if let Some(n) = it.next() {
                        if n.starts_with("feature=") {
                            v.push(esc(n));
                        }
                    }
                }
            }
            v
        };
        // named items and the paths under which they can be named inside the crate (definitions and `use` re-exports):
        // lets the rules recognise an item that was moved to another module but is still reachable under its former path
        let mut names: Vec<String> = Vec::new();
        {
            let mut mods: Vec<LocalDefId> = vec![rustc_hir::def_id::CRATE_DEF_ID];
            for d in tcx.hir_crate_items(()).definitions() {
                let did = d.to_def_id();
                let kind = tcx.def_kind(did);
                let named = matches!(
                    kind,
                    DefKind::Mod | DefKind::Struct | DefKind::Enum | DefKind::Union | DefKind::Trait | DefKind::Fn
                        | DefKind::Static { .. } | DefKind::Const { .. } | DefKind::TyAlias | DefKind::Macro(..)
                );
                if !named {
                    continue;
                }
                if let Some(p) = tcx.opt_parent(did) {
                    if !matches!(tcx.def_kind(p), DefKind::Mod) {
                        continue;
                    }
                }
                names.push(obj(&[("path", esc(&tcx.def_path_str(did))), ("kind", esc(&format!("{kind:?}"))), ("def", "true".into())]));
                if matches!(kind, DefKind::Mod) {
                    mods.push(d);
                }
            }
            for m in mods {
                let mp = if m == rustc_hir::def_id::CRATE_DEF_ID { String::new() } else { tcx.def_path_str(m.to_def_id()) };
                for ch in tcx.module_children_local(m) {
                    if ch.reexport_chain.is_empty() {
                        continue;
                    }
                    if let rustc_hir::def::Res::Def(k, target) = ch.res {
                        if target.krate != rustc_hir::def_id::LOCAL_CRATE {
                            continue;
                        }
                        let alias = if mp.is_empty() { ch.ident.to_string() } else { format!("{}::{}", mp, ch.ident) };
                        names.push(obj(&[
                            ("path", esc(&alias)),
                            ("kind", esc(&format!("{k:?}"))),
                            ("target", esc(&tcx.def_path_str(target))),
                        ]));
                    }
                }
            }
        }
        let out = obj(&[
            ("crate", esc(&krate)),
            ("nonce", esc(&nonce)),
            ("test", format!("{is_test}")),
            ("debug_assertions", format!("{}", tcx.sess.opts.debug_assertions)),
            ("features", arr(features)),
            ("bodies", arr(bodies)),
            ("fns", arr(fns)),
            ("adts", arr(adts)),
            ("impls", arr(impls)),
            ("evals", arr(evals)),
            ("names", arr(names)),
        ]);
        let ctype = if tcx.crate_types().iter().any(|t| format!("{t:?}") == "ProcMacro") {
            "procmacro"
        } else if is_test {
            "test"
        } else {
            "lib"
        };
        let file = format!("{dir}/{krate}.{ctype}.{}.json", std::process::id());
        std::fs::write(&file, out).expect("write facts");
        Compilation::Continue
    }
}

fn main() {
    let mut args: Vec<String> = std::env::args().collect();
    // RUSTC_WORKSPACE_WRAPPER: argv[1] is the real rustc path; drop it.
    if args.len() > 1 && (args[1].ends_with("rustc") || args[1].contains("/rustc")) {
        args.remove(1);
    }
    let code = rustc_driver::catch_with_exit_code(|| {
        rustc_driver::run_compiler(&args, &mut Facts);
    });
    std::process::exit(if code == std::process::ExitCode::SUCCESS { 0 } else { 1 });
}
